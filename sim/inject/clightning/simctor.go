package clightning

import (
	"context"
	"encoding/hex"

	"github.com/btcsuite/btcd/chaincfg"
	"github.com/elementsproject/glightning/gbitcoin"
	"github.com/elementsproject/glightning/glightning"
	"github.com/elementsproject/peerswap/messages"
	"github.com/elementsproject/peerswap/onchain"
)

// Simulation builds only (overlay-injected file, never part of /repo).
//
// NewSimClient builds the adapter the way NewClightningClient + onInit +
// SetupClients leave it, without a lightningd socket: the glightning and
// gbitcoin clients it holds are the real ones, their transports are answered
// by the simulated lightningd / bitcoind (hooks in copies of glightning's
// jrpc2/client.go and gbitcoin/bitcoind.go).
func NewSimClient(ctx context.Context, nodeId, version string, chain *onchain.BitcoinOnChain, network *chaincfg.Params) (*ClightningClient, error) {
	cl, _, err := NewClightningClient(ctx)
	if err != nil {
		return nil, err
	}
	cl.nodeId = nodeId
	cl.version = version
	cl.bitcoinChain = chain
	cl.bitcoinNetwork = network
	cl.gbitcoin = gbitcoin.NewBitcoin("sim", "sim", "")
	cl.isReady = true
	return cl, nil
}

// SimGbitcoin exposes the bitcoind client of the adapter (the harness builds
// the node's fee estimator from it, as main.go does).
func (cl *ClightningClient) SimGbitcoin() *gbitcoin.Bitcoin { return cl.gbitcoin }

// SimSetChain installs the on-chain service once it exists (main.go: SetupClients).
func (cl *ClightningClient) SimSetChain(chain *onchain.BitcoinOnChain) { cl.bitcoinChain = chain }

// SimDeliver hands a custom message to the adapter the way lightningd's
// custommsg hook does.
func (cl *ClightningClient) SimDeliver(peerId string, msgType int, payload []byte) {
	_, _ = cl.OnCustomMsg(&glightning.CustomMsgReceivedEvent{
		PeerId:  peerId,
		Payload: messages.MessageTypeToHexString(messages.MessageType(msgType)) + hex.EncodeToString(payload),
	})
}
