package lwk

import (
	"context"

	"github.com/elementsproject/glightning/jrpc2"
	"github.com/elementsproject/peerswap/electrum"
)

// Simulation builds only (overlay-injected file, never part of /repo).

// SimLwkTransport, when set, answers the lwk client's JSON-RPC requests instead of the HTTP
// endpoint (the build inserts the hook at the top of lwkclient.request).
var SimLwkTransport func(ctx context.Context, m jrpc2.Method, resp interface{}) (bool, error)

// NewSimLWKRpcWallet is NewLWKRpcWallet with the electrum client handed in instead of
// dialled: the wallet, its setup and its lwk client are the real code.
func NewSimLWKRpcWallet(ctx context.Context, c *Conf, ec electrum.RPC) (*LWKRpcWallet, error) {
	rpcWallet := &LWKRpcWallet{
		lwkClient:      NewLwk(c.GetLWKEndpoint()),
		electrumClient: ec,
		c:              c,
	}
	err := rpcWallet.setupWallet(ctx)
	if err != nil {
		return nil, err
	}
	return rpcWallet, nil
}
