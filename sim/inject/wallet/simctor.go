package wallet

// Simulation builds only (overlay-injected file, never part of /repo).
//
// NewSimRpcWallet is NewRpcWallet for a client that is not a *gelements.Elements:
// the repository's own RpcClient interface is the seam, answered by a simulated
// elementsd. Everything else (wallet setup, fee-rate handling, output
// construction, fund / blind / sign / send sequence) is the real code.
func NewSimRpcWallet(rpcClient RpcClient, walletName string) (*ElementsRpcWallet, error) {
	rpcWallet := &ElementsRpcWallet{
		walletName: walletName,
		rpcClient:  rpcClient,
	}
	err := rpcWallet.setupWallet()
	if err != nil {
		return nil, err
	}
	return rpcWallet, nil
}
