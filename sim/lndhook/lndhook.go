// Package lndhook is the seam between peerswap's lnd adapter (package lnd) and
// the simulated LND. In the instrumented build the adapter's calls to the
// generated gRPC client constructors (lnrpc.NewLightningClient(cc), ...) are
// redirected here; the harness answers them with in-process fakes chosen by
// the identity of the (never dialled) *grpc.ClientConn it handed to the
// adapter's own constructors. Everything else in package lnd is the real code.
package lndhook

import (
	"github.com/lightningnetwork/lnd/lnrpc"
	"github.com/lightningnetwork/lnd/lnrpc/chainrpc"
	"github.com/lightningnetwork/lnd/lnrpc/invoicesrpc"
	"github.com/lightningnetwork/lnd/lnrpc/routerrpc"
	"github.com/lightningnetwork/lnd/lnrpc/walletrpc"
	"google.golang.org/grpc"
)

// Backend is implemented by the harness's simulated LND.
type Backend interface {
	Lightning() lnrpc.LightningClient
	WalletKit() walletrpc.WalletKitClient
	Router() routerrpc.RouterClient
	Invoices() invoicesrpc.InvoicesClient
	ChainNotifier() chainrpc.ChainNotifierClient
}

// Resolve maps a client connection to its simulated back-end (set by the harness).
var Resolve func(cc grpc.ClientConnInterface) Backend

func backend(cc grpc.ClientConnInterface) Backend {
	if Resolve == nil {
		panic("lndhook: no simulated lnd installed")
	}
	b := Resolve(cc)
	if b == nil {
		panic("lndhook: unknown client connection")
	}
	return b
}

func NewLightningClient(cc grpc.ClientConnInterface) lnrpc.LightningClient { return backend(cc).Lightning() }
func NewWalletKitClient(cc grpc.ClientConnInterface) walletrpc.WalletKitClient {
	return backend(cc).WalletKit()
}
func NewRouterClient(cc grpc.ClientConnInterface) routerrpc.RouterClient { return backend(cc).Router() }
func NewInvoicesClient(cc grpc.ClientConnInterface) invoicesrpc.InvoicesClient {
	return backend(cc).Invoices()
}
func NewChainNotifierClient(cc grpc.ClientConnInterface) chainrpc.ChainNotifierClient {
	return backend(cc).ChainNotifier()
}
