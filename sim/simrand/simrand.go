// Package simrand replaces "math/rand" in the instrumented peerswap build;
// values come from the run's seeded per-task streams.
package simrand

import "github.com/elementsproject/peerswap/verifsim/rt"

func Intn(n int) int {
	if n <= 0 {
		panic("invalid argument to Intn")
	}
	return int(rt.RandUint64() % uint64(n))
}
func Int63n(n int64) int64 {
	if n <= 0 {
		panic("invalid argument to Int63n")
	}
	return int64(rt.RandUint64() % uint64(n))
}
func Int63() int64               { return int64(rt.RandUint64() >> 1) }
func Int() int                   { return int(rt.RandUint64() >> 1) }
func Int31n(n int32) int32       { return int32(rt.RandUint64() % uint64(n)) }
func Uint32() uint32             { return uint32(rt.RandUint64()) }
func Uint64() uint64             { return rt.RandUint64() }
func Float64() float64           { return float64(rt.RandUint64()>>11) / (1 << 53) }
func Seed(int64)                 {}
func Read(p []byte) (int, error) { return rt.Reader{}.Read(p) }
