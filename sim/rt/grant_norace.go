//go:build !race

package rt

func (t *Task) waitGrant() { <-t.grant }
func (t *Task) sendGrant() { t.grant <- struct{}{} }

func raceOff() {}
func raceOn()  {}

func (s *Sim) lineageAcquire(node, inc int) {}

// ReleaseLineage is a no-op outside race-detector builds.
func ReleaseLineage() {}

func noteGoid(g int64, node int) {}

// GoidNode is only meaningful in race-detector builds.
func GoidNode(g int64) (int, bool) { return 0, false }

func callForNode(node int, f func()) { f() }
