// Package rt is the deterministic-simulation runtime that the instrumented
// peerswap build links against (it is mapped into the peerswap module path by
// the build overlay as github.com/elementsproject/peerswap/verifsim/rt).
//
// One Sim exists per run. It lives inside one testing/synctest bubble, so the
// clock is virtual. Every goroutine of the system under test is a Task; a Task
// may only proceed past a "sim operation" (lock, stub call, store call, select,
// goroutine start) when the scheduler grants it. The scheduler runs exactly
// one granted task at a time and learns that the task stopped (parked again,
// finished, or blocked durably on a raw channel/timer) from synctest.Wait().
package rt

import (
	"bytes"
	"container/heap"
	"crypto/sha256"
	"encoding/binary"
	"encoding/hex"
	"fmt"
	"reflect"
	"runtime"
	"sort"
	"strconv"
	"strings"
	"sync"
	"testing/synctest"
	"time"
)

// ---------------------------------------------------------------------------
// Task

type tstate int

const (
	stRunning tstate = iota
	stReady          // parked at a sim op, wants a grant
	stBlocked        // blocked on a sim wait object (mutex, cond, event ...)
	stDone
)

// Task is one goroutine of the simulated system.
type Task struct {
	ID    string
	Node  int // -1: harness/environment
	Inc   int // incarnation of Node this task belongs to
	Name  string
	grant chan struct{}
	state tstate
	site  string
	// what the task is blocked on (for the wait-for graph)
	waitMutex WaitTarget
	killed    bool
	children  int
	seq       uint64 // order of becoming ready (FIFO default)
	rnd       uint64 // per-task random stream counter
	sim       *Sim
	Ops       int // number of sim operations performed by this task
	held      map[Holdable]int
	counted   bool // the pending park is a crash-countable operation
}

// Holdable is a primitive a task can hold; it is force-released when the
// holding task's process crashed (its memory is gone, its locks with it).
type Holdable interface {
	ForceRelease(t *Task)
	Label() string
}

func (t *Task) Hold(h Holdable) {
	if t.sim == nil {
		return
	}
	t.sim.mu.Lock()
	if t.held == nil {
		t.held = map[Holdable]int{}
	}
	t.held[h]++
	t.sim.mu.Unlock()
}

func (t *Task) Unhold(h Holdable) {
	if t.sim == nil {
		return
	}
	t.sim.mu.Lock()
	if t.held[h] > 0 {
		t.held[h]--
		if t.held[h] == 0 {
			delete(t.held, h)
		}
	}
	t.sim.mu.Unlock()
}

// WaitTarget is implemented by simsync primitives so the scheduler can build
// the wait-for graph.
type WaitTarget interface {
	// Owners returns the tasks currently holding the primitive.
	Owners() []*Task
	Label() string
}

// ---------------------------------------------------------------------------
// Env events

type envEvent struct {
	at    time.Duration
	seq   uint64
	class string
	name  string
	run   func()
	idx   int
}

type envHeap []*envEvent

func (h envHeap) Len() int { return len(h) }
func (h envHeap) Less(i, j int) bool {
	if h[i].at != h[j].at {
		return h[i].at < h[j].at
	}
	return h[i].seq < h[j].seq
}
func (h envHeap) Swap(i, j int)       { h[i], h[j] = h[j], h[i]; h[i].idx = i; h[j].idx = j }
func (h *envHeap) Push(x interface{}) { e := x.(*envEvent); e.idx = len(*h); *h = append(*h, e) }
func (h *envHeap) Pop() interface{} {
	old := *h
	n := len(old)
	e := old[n-1]
	*h = old[:n-1]
	return e
}

// ---------------------------------------------------------------------------
// Sim

// Perturb makes the scheduler deviate from its default (FIFO) choice at one
// decision step.
type Perturb struct {
	Step int
	Pick int
}

// Config is the scheduling part of a plan.
type Config struct {
	Seed      uint64 // seeds crypto/rand streams and jitter
	SchedSeed uint64 // 0 = FIFO; otherwise pseudo-random deviations
	SchedRate int    // per-mille probability of deviating at a step (with SchedSeed)
	Perturb   []Perturb
	SelectRot int // rotation applied to select-case polling order
	MaxSteps  int
	// CrashAtOp: crash node N when its K-th sim operation is about to run.
	CrashAtOp map[int][]int
}

type Sim struct {
	mu      sync.Mutex
	cfg     Config
	start   time.Time
	tasks   []*Task
	byGoid  map[int64]*Task
	env     envHeap
	envSeq  uint64
	lineage map[[2]int]*[8]byte // race builds: per (node, incarnation) token, see grant_race.go
	readySq uint64
	wake    chan struct{}
	step    int
	perturb map[int]int
	stopped bool
	current *Task // task holding the grant (nil in scheduler)

	incs    map[int]int // node -> current incarnation
	nodeOps map[int]int // node -> sim ops so far (all incarnations)
	crashAt map[int]map[int]bool

	// OnCrashRequest is called (in scheduler context) when a CrashAtOp point is hit.
	OnCrashRequest func(node int)
	// OnPanic is called when a task of the system under test panics.
	OnPanic func(t *Task, v interface{}, stack string)

	logbuf   []string
	logHash  [32]byte
	LogLimit int

	Deadlock   []string // description of the first deadlock cycle found
	StepsTaken int
	Fired      map[string]int // fault/probe counters

	hooks []func(kind string, kv []string)
}

var cur *Sim
var curMu sync.Mutex

// Cur returns the running simulation (nil outside a run).
func Cur() *Sim { curMu.Lock(); defer curMu.Unlock(); return cur }

// New creates the simulation; must be called inside the synctest bubble.
func New(cfg Config) *Sim {
	s := &Sim{
		cfg:     cfg,
		start:   time.Now(),
		byGoid:  map[int64]*Task{},
		wake:    make(chan struct{}, 1),
		perturb: map[int]int{},
		incs:    map[int]int{},
		nodeOps: map[int]int{},
		crashAt: map[int]map[int]bool{},
		Fired:   map[string]int{},
	}
	if s.cfg.MaxSteps == 0 {
		s.cfg.MaxSteps = 200000
	}
	for _, p := range cfg.Perturb {
		s.perturb[p.Step] = p.Pick
	}
	for n, ks := range cfg.CrashAtOp {
		s.crashAt[n] = map[int]bool{}
		for _, k := range ks {
			s.crashAt[n][k] = true
		}
	}
	curMu.Lock()
	cur = s
	curMu.Unlock()
	return s
}

// Close detaches the simulation.
func (s *Sim) Close() {
	curMu.Lock()
	if cur == s {
		cur = nil
	}
	curMu.Unlock()
	// goroutines of the finished simulation may stay parked for the rest of the process and
	// keep this Sim reachable: let go of what is large
	s.mu.Lock()
	s.logbuf = nil
	s.hooks = nil
	s.mu.Unlock()
}

func (s *Sim) Now() time.Duration { return time.Since(s.start) }

// AddHook registers an observer of Observe calls.
func (s *Sim) AddHook(f func(kind string, kv []string)) { s.hooks = append(s.hooks, f) }

// Logf appends to the canonical event log. It never draws randomness and
// reads only the virtual clock.
func (s *Sim) Logf(format string, a ...interface{}) {
	line := fmt.Sprintf("%010.3f ", s.Now().Seconds()) + fmt.Sprintf(format, a...)
	s.mu.Lock()
	h := sha256.New()
	h.Write(s.logHash[:])
	h.Write([]byte(line))
	copy(s.logHash[:], h.Sum(nil))
	if s.LogLimit == 0 || len(s.logbuf) < s.LogLimit {
		s.logbuf = append(s.logbuf, line)
	}
	s.mu.Unlock()
}

// Log returns the event log and its running hash.
func (s *Sim) Log() ([]string, string) {
	s.mu.Lock()
	defer s.mu.Unlock()
	out := make([]string, len(s.logbuf))
	copy(out, s.logbuf)
	return out, hex.EncodeToString(s.logHash[:])
}

// Observe records an observation (logged + dispatched to hooks).
func (s *Sim) Observe(kind string, kv ...string) {
	s.Logf("OBS %s %s", kind, strings.Join(kv, " "))
	for _, h := range s.hooks {
		h(kind, kv)
	}
}

// Count increments a fired/probe counter.
func (s *Sim) Count(name string) {
	s.mu.Lock()
	s.Fired[name]++
	s.mu.Unlock()
}

// ---------------------------------------------------------------------------
// goroutine identity

func goid() int64 {
	var buf [64]byte
	n := runtime.Stack(buf[:], false)
	// "goroutine 123 ["
	b := buf[:n]
	b = b[len("goroutine "):]
	i := bytes.IndexByte(b, ' ')
	id, _ := strconv.ParseInt(string(b[:i]), 10, 64)
	return id
}

// Self returns the current task, or nil if the goroutine is not a task.
func Self() *Task {
	s := Cur()
	if s == nil {
		return nil
	}
	g := goid()
	s.mu.Lock()
	t := s.byGoid[g]
	s.mu.Unlock()
	return t
}

func (s *Sim) self() *Task {
	g := goid()
	s.mu.Lock()
	t := s.byGoid[g]
	s.mu.Unlock()
	return t
}

// ---------------------------------------------------------------------------
// spawning

// Go is what every `go` statement of the instrumented code becomes.
func Go(f func()) {
	s := Cur()
	if s == nil {
		go f()
		return
	}
	parent := s.self()
	node, inc, pid := -1, 0, "x"
	if parent != nil {
		node, inc, pid = parent.Node, parent.Inc, parent.ID
		if parent.killed {
			return // a dead process starts nothing
		}
	}
	s.spawn(parent, node, inc, pid, "go", f)
}

// Spawn starts a task on behalf of node (current incarnation). Used by the
// harness for deliveries, callbacks, operator calls.
func (s *Sim) Spawn(node int, name string, f func()) *Task {
	s.mu.Lock()
	inc := s.incs[node]
	s.mu.Unlock()
	return s.spawn(nil, node, inc, fmt.Sprintf("n%d", node), name, f)
}

func (s *Sim) spawn(parent *Task, node, inc int, pid, name string, f func()) *Task {
	s.mu.Lock()
	var id string
	if parent != nil {
		parent.children++
		id = pid + "." + strconv.Itoa(parent.children)
	} else {
		s.envSeq++
		id = pid + "#" + strconv.FormatUint(s.envSeq, 10)
	}
	t := &Task{ID: id, Node: node, Inc: inc, Name: name, grant: make(chan struct{}, 1), state: stReady, site: "start", sim: s}
	s.tasks = append(s.tasks, t)
	s.mu.Unlock()
	// started by the environment (scheduler context), not by a task of the system
	envCtx := parent == nil && s.self() == nil
	run := func() {
		g := goid()
		s.mu.Lock()
		s.byGoid[g] = t
		s.mu.Unlock()
		noteGoid(g, node)
		defer func() {
			r := recover()
			var stack string
			if r != nil {
				buf := make([]byte, 16384)
				stack = string(buf[:runtime.Stack(buf, false)])
			}
			s.mu.Lock()
			t.state = stDone
			delete(s.byGoid, g)
			var held []Holdable
			if t.killed || r != nil {
				for h := range t.held {
					held = append(held, h)
				}
				sort.Slice(held, func(i, j int) bool { return held[i].Label() < held[j].Label() })
				t.held = nil
			}
			s.mu.Unlock()
			for _, h := range held {
				h.ForceRelease(t)
			}
			s.poke()
			if r != nil && s.OnPanic != nil {
				s.OnPanic(t, r, stack)
			}
		}()
		s.poke()
		t.waitGrant()
		if t.isDead() {
			return
		}
		if envCtx {
			s.lineageAcquire(node, inc)
		}
		callForNode(node, f)
	}
	if envCtx {
		raceOff()
		go run()
		raceOn()
	} else {
		go run()
	}
	return t
}

func (s *Sim) poke() {
	select {
	case s.wake <- struct{}{}:
	default:
	}
}

func (t *Task) isDead() bool {
	s := t.sim
	s.mu.Lock()
	defer s.mu.Unlock()
	return t.killed || s.stopped || (t.Node >= 0 && s.incs[t.Node] != t.Inc)
}

// Dead reports whether the calling task belongs to a crashed incarnation.
func (t *Task) Dead() bool { return t.isDead() }

// ---------------------------------------------------------------------------
// parking

// Yield is a sim operation: the task stops until the scheduler grants it.
func Yield(site string) {
	s := Cur()
	if s == nil {
		return
	}
	t := s.self()
	if t == nil {
		return // not a task (harness/scheduler goroutine): no-op
	}
	t.park(site)
}

// YieldOp is Yield for operations that count as crash points of the node
// (service calls and store writes).
func YieldOp(site string) {
	s := Cur()
	if s == nil {
		return
	}
	t := s.self()
	if t == nil {
		return
	}
	t.counted = true
	t.park(site)
}

func (t *Task) park(site string) {
	s := t.sim
	s.mu.Lock()
	if t.killed || s.stopped || (t.Node >= 0 && s.incs[t.Node] != t.Inc) {
		s.mu.Unlock()
		t.die()
	}
	t.state = stReady
	t.site = site
	t.seq = 0
	s.mu.Unlock()
	s.poke()
	t.waitGrant()
	if t.isDead() {
		t.die()
	}
}

// die terminates the calling goroutine (running deferred calls). A task that
// is already unwinding must not Goexit again; callers check Dying first.
func (t *Task) die() {
	s := t.sim
	s.mu.Lock()
	already := t.killed && t.site == "dying"
	t.killed = true
	t.site = "dying"
	s.mu.Unlock()
	if already {
		return
	}
	runtime.Goexit()
}

// Dying reports whether the task is unwinding after a crash.
func (t *Task) Dying() bool {
	s := t.sim
	if s == nil {
		return false
	}
	s.mu.Lock()
	defer s.mu.Unlock()
	return t.site == "dying"
}

// Block parks the task as blocked on target until MakeReady is called for it.
// Returns after the task has been made ready AND granted.
func (t *Task) Block(site string, target WaitTarget) {
	s := t.sim
	s.mu.Lock()
	if t.killed || s.stopped || (t.Node >= 0 && s.incs[t.Node] != t.Inc) {
		s.mu.Unlock()
		t.die()
		return
	}
	t.state = stBlocked
	t.site = site
	t.waitMutex = target
	s.mu.Unlock()
	s.poke()
	t.waitGrant()
	if t.isDead() {
		t.die()
	}
}

// MakeReady moves a blocked task to the ready set.
func (s *Sim) MakeReady(t *Task) {
	s.mu.Lock()
	if t.state == stBlocked {
		t.state = stReady
		t.waitMutex = nil
		t.seq = 0
	}
	s.mu.Unlock()
	s.poke()
}

// ---------------------------------------------------------------------------
// Event: a one-shot or repeatable wait object for stubs.

type Event struct {
	mu      sync.Mutex
	fired   bool
	waiters []*Task
	label   string
}

func NewEvent(label string) *Event { return &Event{label: label} }

func (e *Event) Owners() []*Task { return nil }
func (e *Event) Label() string   { return "event:" + e.label }

// Fire releases all waiters; later Waits return immediately.
func (e *Event) Fire() {
	e.mu.Lock()
	e.fired = true
	ws := e.waiters
	e.waiters = nil
	e.mu.Unlock()
	s := Cur()
	for _, w := range ws {
		if s != nil {
			s.MakeReady(w)
		}
	}
}

func (e *Event) Fired() bool { e.mu.Lock(); defer e.mu.Unlock(); return e.fired }

// Wait blocks the calling task until Fire.
func (e *Event) Wait(site string) {
	s := Cur()
	t := s.self()
	if t == nil {
		panic("rt.Event.Wait outside a task")
	}
	for {
		e.mu.Lock()
		if e.fired {
			e.mu.Unlock()
			return
		}
		e.waiters = append(e.waiters, t)
		e.mu.Unlock()
		t.Block(site, e)
	}
}

// WaitTimeout waits for Fire or for d of virtual time; reports whether fired.
func (e *Event) WaitTimeout(site string, d time.Duration) bool {
	s := Cur()
	if e.Fired() {
		return true
	}
	t := s.self()
	timeout := false
	s.After(d, "timeout", "evtimeout:"+e.label, func() {
		e.mu.Lock()
		if e.fired {
			e.mu.Unlock()
			return
		}
		timeout = true
		// remove from waiters
		for i, w := range e.waiters {
			if w == t {
				e.waiters = append(e.waiters[:i], e.waiters[i+1:]...)
				break
			}
		}
		e.mu.Unlock()
		s.MakeReady(t)
	})
	for {
		e.mu.Lock()
		if e.fired {
			e.mu.Unlock()
			return true
		}
		if timeout {
			e.mu.Unlock()
			return false
		}
		e.waiters = append(e.waiters, t)
		e.mu.Unlock()
		t.Block(site, e)
	}
}

// ---------------------------------------------------------------------------
// environment events

// After schedules fn to run in scheduler context after d of virtual time.
func (s *Sim) After(d time.Duration, class, name string, fn func()) {
	s.mu.Lock()
	s.envSeq++
	heap.Push(&s.env, &envEvent{at: s.Now() + d, seq: s.envSeq, class: class, name: name, run: fn})
	s.mu.Unlock()
	s.poke()
}

// ---------------------------------------------------------------------------
// crash / incarnation

func (s *Sim) Incarnation(node int) int { s.mu.Lock(); defer s.mu.Unlock(); return s.incs[node] }

// Crash kills the current incarnation of node: every task of it exits at its
// next sim operation (deferred calls run); blocked/parked ones are released
// one at a time right now. Must be called from scheduler context.
func (s *Sim) Crash(node int) {
	s.mu.Lock()
	s.incs[node]++
	var victims []*Task
	for _, t := range s.tasks {
		if t.Node == node && t.state != stDone && !t.killed {
			t.killed = true
			if t.state == stReady || t.state == stBlocked {
				victims = append(victims, t)
			}
		}
	}
	s.mu.Unlock()
	sort.Slice(victims, func(i, j int) bool { return victims[i].ID < victims[j].ID })
	var ids []string
	for _, t := range victims {
		ids = append(ids, t.ID+"@"+t.site)
	}
	s.Logf("CRASH node=%d victims=%d %s", node, len(victims), strings.Join(ids, ","))
	for _, t := range victims {
		s.release(t)
	}
}

// Settle waits until every goroutine the scheduler context has just woken by a
// raw operation (closing a channel, cancelling a context) has run to its next
// park or durable block. Without it such goroutines race with whatever the
// scheduler does next. Scheduler context only.
func (s *Sim) Settle() { synctest.Wait() }

func (s *Sim) release(t *Task) {
	s.mu.Lock()
	if t.state == stDone || t.state == stRunning {
		s.mu.Unlock()
		return
	}
	t.state = stRunning
	s.current = t
	s.mu.Unlock()
	t.sendGrant()
	synctest.Wait()
	s.mu.Lock()
	s.current = nil
	s.mu.Unlock()
}

// ---------------------------------------------------------------------------
// scheduler

func mix(a, b uint64) uint64 {
	x := a ^ (b + 0x9e3779b97f4a7c15 + (a << 6) + (a >> 2))
	x ^= x >> 33
	x *= 0xff51afd7ed558ccd
	x ^= x >> 33
	x *= 0xc4ceb9fe1a85ec53
	x ^= x >> 33
	return x
}

type choice struct {
	t   *Task
	ev  *envEvent
	seq uint64
}

// RunUntil drives the system until cond() is true (checked between steps),
// virtual time reaches deadline, or the step budget is exhausted. It returns
// "cond", "deadline", "steps" or "idle" (nothing can ever happen again).
func (s *Sim) RunUntil(deadline time.Duration, cond func() bool) string {
	// race builds: the scheduler context neither acquires from nor releases to
	// the goroutines of the system under test (see grant_race.go)
	raceOff()
	defer raceOn()
	for {
		synctest.Wait()
		if cond != nil && cond() {
			return "cond"
		}
		if s.Now() >= deadline {
			return "deadline"
		}
		if s.step >= s.cfg.MaxSteps {
			return "steps"
		}
		now := s.Now()
		s.mu.Lock()
		// Tasks that became ready since the last decision get their FIFO rank
		// now, in task-id order: the rank must not depend on which of several
		// runtime-woken goroutines reached its park first.
		var fresh []*Task
		for _, t := range s.tasks {
			if t != nil && t.state == stReady && t.seq == 0 {
				fresh = append(fresh, t)
			}
		}
		sort.Slice(fresh, func(i, j int) bool { return fresh[i].ID < fresh[j].ID })
		for _, t := range fresh {
			s.readySq++
			t.seq = s.readySq
		}
		var ready []choice
		for _, t := range s.tasks {
			if t != nil && t.state == stReady {
				ready = append(ready, choice{t: t, seq: t.seq})
			}
		}
		// compact finished tasks now and then
		if len(s.tasks) > 256 {
			live := s.tasks[:0]
			for _, t := range s.tasks {
				if t.state != stDone {
					live = append(live, t)
				}
			}
			for i := len(live); i < len(s.tasks); i++ {
				s.tasks[i] = nil
			}
			s.tasks = live
		}
		for _, e := range s.env {
			if e.at <= now {
				ready = append(ready, choice{ev: e, seq: 0})
			}
		}
		var nextEnv time.Duration = -1
		if len(s.env) > 0 {
			nextEnv = s.env[0].at
		}
		s.mu.Unlock()

		if len(ready) == 0 {
			// Nothing runnable: let virtual time advance until a task parks
			// or the next environment event / deadline is due.
			wait := deadline - now
			if nextEnv >= 0 && nextEnv-now < wait {
				wait = nextEnv - now
			}
			if wait <= 0 {
				continue
			}
			tm := time.NewTimer(wait)
			select {
			case <-s.wake:
				tm.Stop()
			case <-tm.C:
			}
			continue
		}
		s.checkDeadlock()

		// canonical order: env events by (at,seq) first, then tasks by ready seq
		sort.SliceStable(ready, func(i, j int) bool {
			a, b := ready[i], ready[j]
			if (a.ev != nil) != (b.ev != nil) {
				return a.ev != nil
			}
			if a.ev != nil {
				if a.ev.at != b.ev.at {
					return a.ev.at < b.ev.at
				}
				return a.ev.seq < b.ev.seq
			}
			return a.seq < b.seq
		})
		pick := 0
		if p, ok := s.perturb[s.step]; ok {
			pick = ((p % len(ready)) + len(ready)) % len(ready)
		} else if s.cfg.SchedSeed != 0 && len(ready) > 1 {
			r := mix(s.cfg.SchedSeed, uint64(s.step))
			if int(r%1000) < s.cfg.SchedRate {
				pick = int((r >> 16) % uint64(len(ready)))
			}
		}
		c := ready[pick]
		s.step++
		s.StepsTaken = s.step
		if c.ev != nil {
			s.mu.Lock()
			heap.Remove(&s.env, c.ev.idx)
			s.mu.Unlock()
			s.Logf("STEP %d env %s %s (of %d)", s.step, c.ev.class, c.ev.name, len(ready))
			c.ev.run()
			continue
		}
		t := c.t
		// crash point?
		if t.Node >= 0 && t.counted {
			t.counted = false
			s.mu.Lock()
			s.nodeOps[t.Node]++
			k := s.nodeOps[t.Node]
			hit := s.crashAt[t.Node][k]
			s.mu.Unlock()
			if hit && s.OnCrashRequest != nil {
				s.Logf("STEP %d crashpoint node=%d op=%d before %s@%s", s.step, t.Node, k, t.ID, t.site)
				s.OnCrashRequest(t.Node)
				continue
			}
		}
		t.Ops++
		s.Logf("STEP %d run %s[%s] @%s (of %d)", s.step, t.ID, t.Name, t.site, len(ready))
		s.release(t)
	}
}

// NodeOps returns how many sim operations node has executed so far.
func (s *Sim) NodeOps(node int) int { s.mu.Lock(); defer s.mu.Unlock(); return s.nodeOps[node] }

// Steps returns the number of scheduler decisions taken.
func (s *Sim) Steps() int { return s.step }

// DisableCrashPoints forgets the crash points that have not fired: the fault phase is over.
func (s *Sim) DisableCrashPoints() {
	s.mu.Lock()
	s.crashAt = map[int]map[int]bool{}
	s.mu.Unlock()
}

// Idle advances virtual time by d while running whatever becomes runnable.
func (s *Sim) Idle(d time.Duration) string { return s.RunUntil(s.Now()+d, nil) }

// Stop ends the run: every task exits at its next sim operation; parked and
// blocked tasks are released now. Pollers get a little virtual time to notice.
func (s *Sim) Stop() {
	raceOff()
	defer raceOn()
	s.mu.Lock()
	s.stopped = true
	var victims []*Task
	for _, t := range s.tasks {
		if t != nil && (t.state == stReady || t.state == stBlocked) {
			victims = append(victims, t)
		}
	}
	s.mu.Unlock()
	for _, t := range victims {
		s.release(t)
	}
	for i := 0; i < 50; i++ {
		time.Sleep(200 * time.Millisecond)
		synctest.Wait()
		s.mu.Lock()
		victims = victims[:0]
		alive := 0
		for _, t := range s.tasks {
			if t == nil || t.state == stDone {
				continue
			}
			alive++
			if t.state == stReady || t.state == stBlocked {
				victims = append(victims, t)
			}
		}
		s.mu.Unlock()
		for _, t := range victims {
			s.release(t)
		}
		if alive == 0 {
			break
		}
	}
}

// Alive lists tasks that have not finished (diagnostics).
func (s *Sim) Alive() []string {
	s.mu.Lock()
	defer s.mu.Unlock()
	var out []string
	for _, t := range s.tasks {
		if t != nil && t.state != stDone {
			out = append(out, fmt.Sprintf("%s[%s] node=%d inc=%d state=%d site=%s", t.ID, t.Name, t.Node, t.Inc, t.state, t.site))
		}
	}
	return out
}

// BlockedTasks lists live (current-incarnation) tasks blocked on a mutex-like
// target together with the target's label (liveness diagnostics for C18).
func (s *Sim) BlockedTasks() []string {
	s.mu.Lock()
	defer s.mu.Unlock()
	var out []string
	for _, t := range s.tasks {
		if t != nil && t.state == stBlocked && !t.killed && t.waitMutex != nil {
			out = append(out, fmt.Sprintf("%s[%s] node=%d site=%s on=%s", t.ID, t.Name, t.Node, t.site, t.waitMutex.Label()))
		}
	}
	return out
}

// checkDeadlock looks for a cycle in the wait-for graph task -> primitive ->
// owner task. A cycle among tasks blocked in Lock is a real deadlock.
func (s *Sim) checkDeadlock() {
	if s.Deadlock != nil {
		return
	}
	s.mu.Lock()
	blocked := map[*Task]WaitTarget{}
	for _, t := range s.tasks {
		if t != nil && t.state == stBlocked && t.waitMutex != nil && !t.killed {
			blocked[t] = t.waitMutex
		}
	}
	s.mu.Unlock()
	if len(blocked) == 0 {
		return
	}
	// deterministic iteration
	var ts []*Task
	for t := range blocked {
		ts = append(ts, t)
	}
	sort.Slice(ts, func(i, j int) bool { return ts[i].ID < ts[j].ID })
	for _, start := range ts {
		seen := map[*Task]bool{}
		var path []string
		t := start
		for {
			tgt, ok := blocked[t]
			if !ok {
				break
			}
			owners := tgt.Owners()
			if len(owners) != 1 {
				// no owner (event/cond) or several readers: follow only if all
				// owners are blocked is not attempted; be conservative.
				break
			}
			path = append(path, fmt.Sprintf("%s[%s]@%s waits %s held by %s[%s]", t.ID, t.Name, t.site, tgt.Label(), owners[0].ID, owners[0].Name))
			if seen[t] {
				break
			}
			seen[t] = true
			t = owners[0]
			if t == start {
				s.Deadlock = path
				s.Logf("DEADLOCK %s", strings.Join(path, " ; "))
				return
			}
		}
	}
}

// ---------------------------------------------------------------------------
// Select: what receive-only select statements become.

var timeType = reflect.TypeOf(time.Time{})

// SelCase is one communication clause of a rewritten select statement.
type SelCase struct {
	Chan interface{}
	Send bool
	Val  interface{}
}

func RecvCase(c interface{}) SelCase             { return SelCase{Chan: c} }
func SendCase(c interface{}, v interface{}) SelCase { return SelCase{Chan: c, Send: true, Val: v} }

// Select polls the channels in a seeded priority order; if none is ready and
// there is no default it blocks on all of them. Returns the case index
// (-1 = default), the received value and ok.
func Select(hasDefault bool, chans ...interface{}) (int, reflect.Value, bool) {
	cs := make([]SelCase, len(chans))
	for i, c := range chans {
		cs[i] = SelCase{Chan: c}
	}
	return SelectX(hasDefault, cs...)
}

// SelectX is Select for clauses that may also send.
func SelectX(hasDefault bool, sel ...SelCase) (int, reflect.Value, bool) {
	s := Cur()
	n := len(sel)
	vals := make([]reflect.Value, n)
	for i, c := range sel {
		vals[i] = reflect.ValueOf(c.Chan)
	}
	usable := func(i int) bool { return vals[i].IsValid() && !vals[i].IsNil() }
	// the reflect case for clause i (send values are converted to the element type)
	mk := func(i int) reflect.SelectCase {
		if !sel[i].Send {
			return reflect.SelectCase{Dir: reflect.SelectRecv, Chan: vals[i]}
		}
		et := vals[i].Type().Elem()
		v := reflect.ValueOf(sel[i].Val)
		if !v.IsValid() {
			v = reflect.Zero(et)
		} else if !v.Type().AssignableTo(et) {
			v = v.Convert(et)
		}
		return reflect.SelectCase{Dir: reflect.SelectSend, Chan: vals[i], Send: v}
	}
	try := func(i int) (reflect.Value, bool, bool) {
		chosen, v, ok := reflect.Select([]reflect.SelectCase{mk(i), {Dir: reflect.SelectDefault}})
		return v, ok, chosen == 0
	}
	order := make([]int, n)
	rot := 0
	if s != nil && n > 0 {
		rot = ((s.cfg.SelectRot % n) + n) % n
	}
	for i := range order {
		order[i] = (i + rot) % n
	}
	if s != nil {
		if t := s.self(); t != nil && t.isDead() {
			Yield("select") // never returns for a dead task
		}
	}
	// Is anything ready? Only then is this a scheduling point (which of the
	// ready cases is taken, and what else may become ready first, matters);
	// an idle poll (default case) or a blocking wait is not.
	anyReady := false
	for _, i := range order {
		if !usable(i) {
			continue
		}
		if !sel[i].Send && vals[i].Len() > 0 {
			anyReady = true
		}
		if sel[i].Send && vals[i].Cap() > 0 && vals[i].Len() < vals[i].Cap() {
			anyReady = true
		}
	}
	if !anyReady {
		// closed channels and unbuffered channels with a waiting partner are not
		// visible through Len; probe them (this performs the operation when possible)
		for _, i := range order {
			if !usable(i) {
				continue
			}
			if v, ok, done := try(i); done {
				// done: hand control back to the scheduler, then deliver
				if s != nil {
					Yield("select.got")
				}
				return i, v, ok
			}
		}
		if hasDefault {
			return -1, reflect.Value{}, false
		}
	} else {
		if s != nil {
			Yield("select")
		}
		for _, i := range order {
			if !usable(i) {
				continue
			}
			if v, ok, done := try(i); done {
				return i, v, ok
			}
		}
		if hasDefault {
			return -1, reflect.Value{}, false
		}
	}
	cases := make([]reflect.SelectCase, 0, n)
	idx := make([]int, 0, n)
	for i := 0; i < n; i++ {
		if !usable(i) {
			continue
		}
		cases = append(cases, mk(i))
		idx = append(idx, i)
	}
	if len(cases) == 0 {
		// blocks forever, like the original
		select {}
	}
	chosen, v, ok := reflect.Select(cases)
	got := idx[chosen]
	if s == nil {
		return got, v, ok
	}
	// We were woken by the runtime, not by the scheduler: hand control back
	// before touching anything, then resolve same-instant ties by priority.
	Yield("select.wake")
	droppable := !sel[got].Send && (!ok || vals[got].Type().Elem() == timeType)
	if droppable {
		for _, i := range order {
			if i == got {
				break
			}
			if !usable(i) {
				continue
			}
			if v2, ok2, done := try(i); done {
				return i, v2, ok2
			}
		}
	}
	return got, v, ok
}

// Cast converts the value received by Select to the channel's element type.
func Cast[T any](_ <-chan T, rv reflect.Value) T {
	var zero T
	if !rv.IsValid() {
		return zero
	}
	return rv.Interface().(T)
}

// ---------------------------------------------------------------------------
// map iteration order

// SortedKeys returns the keys of m in a deterministic order.
func SortedKeys[M ~map[K]V, K comparable, V any](m M) []K {
	keys := make([]K, 0, len(m))
	for k := range m {
		keys = append(keys, k)
	}
	sort.Slice(keys, func(i, j int) bool { return keyString(keys[i]) < keyString(keys[j]) })
	return keys
}

func keyString(k interface{}) string {
	switch v := k.(type) {
	case string:
		return v
	case int:
		return fmt.Sprintf("%020d", v)
	case uint32:
		return fmt.Sprintf("%020d", v)
	case uint64:
		return fmt.Sprintf("%020d", v)
	case fmt.Stringer:
		return v.String()
	}
	rv := reflect.ValueOf(k)
	switch rv.Kind() {
	case reflect.String:
		return rv.String()
	case reflect.Chan, reflect.Pointer, reflect.UnsafePointer, reflect.Func:
		// identity-keyed: no stable order available; fall back to a fixed string
		// (callers with such keys are listed by the instrumenter).
		return "ptr"
	}
	return fmt.Sprintf("%v", k)
}

// ---------------------------------------------------------------------------
// randomness

// RandUint64 returns the next value of the calling task's random stream (or
// of the global stream when called outside a task).
func RandUint64() uint64 {
	s := Cur()
	if s == nil {
		return 4 // chosen by fair dice roll; only reached outside runs
	}
	t := s.self()
	if t == nil {
		s.mu.Lock()
		s.envSeq++
		v := mix(s.cfg.Seed^0xabcdef, s.envSeq)
		s.mu.Unlock()
		return v
	}
	t.rnd++
	h := sha256.Sum256([]byte(t.ID))
	return mix(mix(s.cfg.Seed, binary.LittleEndian.Uint64(h[:8])), t.rnd)
}

// Reader is installed as crypto/rand.Reader for the duration of a run.
type Reader struct{}

func (Reader) Read(p []byte) (int, error) {
	for i := 0; i < len(p); i += 8 {
		v := RandUint64()
		var b [8]byte
		binary.LittleEndian.PutUint64(b[:], v)
		copy(p[i:], b[:])
	}
	return len(p), nil
}
