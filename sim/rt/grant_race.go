//go:build race

package rt

import (
	"runtime"
	"sync"
	"unsafe"
)

// Under the race detector the simulator must not add happens-before edges
// between goroutines of the system under test:
//   - the scheduler sees everything (synctest.Wait) and hands the grant to one
//     task at a time: an ordinary hand-off would order every step after every
//     earlier step, and no race could ever be reported. The scheduler context
//     therefore runs with synchronisation events switched off (raceOff), and
//     the grant is passed silently on both sides;
//   - a task the environment starts (message delivery, payment notification,
//     operator command) starts with an empty clock and then acquires its
//     node's lineage token, which the node's boot task (and every
//     registration of a callback with the outside world) releases: the task is
//     ordered after the node's initialisation and after those registrations,
//     as in a real deployment, and after nothing else.

//go:norace
func (t *Task) waitGrant() {
	runtime.RaceDisable()
	<-t.grant
	runtime.RaceEnable()
}

//go:norace
func (t *Task) sendGrant() {
	runtime.RaceDisable()
	t.grant <- struct{}{}
	runtime.RaceEnable()
}

func raceOff() { runtime.RaceDisable() }
func raceOn()  { runtime.RaceEnable() }

//go:norace
func (s *Sim) lineageAddr(node, inc int) unsafe.Pointer {
	s.mu.Lock()
	defer s.mu.Unlock()
	if s.lineage == nil {
		s.lineage = map[[2]int]*[8]byte{}
	}
	k := [2]int{node, inc}
	p := s.lineage[k]
	if p == nil {
		p = new([8]byte)
		s.lineage[k] = p
	}
	return unsafe.Pointer(p)
}

//go:norace
func (s *Sim) lineageAcquire(node, inc int) {
	if node < 0 {
		return
	}
	runtime.RaceAcquire(s.lineageAddr(node, inc))
}

// ReleaseLineage publishes everything the calling task has done so far to the
// tasks the environment will start for its node later on.
//
//go:norace
func ReleaseLineage() {
	s := Cur()
	if s == nil {
		return
	}
	t := s.self()
	if t == nil || t.Node < 0 {
		return
	}
	runtime.RaceReleaseMerge(s.lineageAddr(t.Node, t.Inc))
}

// goroutine id -> node, kept for the whole process: race reports name
// goroutines, and a report only counts when both belong to the same simulated
// node (two nodes share a process here, not in a deployment).
var (
	goidMu    sync.Mutex
	goidNodes = map[int64]int{}
)

//go:norace
func noteGoid(g int64, node int) {
	runtime.RaceDisable()
	goidMu.Lock()
	goidNodes[g] = node
	goidMu.Unlock()
	runtime.RaceEnable()
}

// GoidNode reports the node a goroutine of the system under test belonged to.
//
//go:norace
func GoidNode(g int64) (int, bool) {
	runtime.RaceDisable()
	goidMu.Lock()
	n, ok := goidNodes[g]
	goidMu.Unlock()
	runtime.RaceEnable()
	return n, ok
}

// The node a goroutine works for is made visible in its stack (race reports
// print stacks, and their goroutine numbers are the detector's own).

//go:noinline
func callNode0(f func()) { f() }

//go:noinline
func callNode1(f func()) { f() }

//go:noinline
func callNode2(f func()) { f() }

//go:noinline
func callNodeOther(f func()) { f() }

func callForNode(node int, f func()) {
	switch node {
	case 0:
		callNode0(f)
	case 1:
		callNode1(f)
	case 2:
		callNode2(f)
	default:
		callNodeOther(f)
	}
}
