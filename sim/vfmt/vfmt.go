// Package vfmt is a small formatter that never touches sync.Pool. In
// race-detector builds the simulator's own code is switched from fmt to it
// (tools/race_transform.py): fmt's pooled printers would otherwise (a) tie
// unrelated goroutines of the system under test together with
// happens-before edges whenever harness code formats something on their
// behalf, hiding races, and (b) be reported as racing between the scheduler
// context (which runs with synchronisation events switched off) and everybody
// else, thousands of times per run.
//
// Supported: %d %s %v %+v %q %x %X %t %f %c %T %w %% with the flags - 0 +,
// width and precision; anything else falls back to fmt for that one operand.
package vfmt

import (
	"errors"
	"fmt"
	"io"
	"strconv"
	"strings"
	"time"
)

type Stringer = fmt.Stringer

func Errorf(format string, a ...interface{}) error { return errors.New(Sprintf(format, a...)) }

func Fprintf(w io.Writer, format string, a ...interface{}) (int, error) {
	return w.Write([]byte(Sprintf(format, a...)))
}

func Sprint(a ...interface{}) string {
	var sb strings.Builder
	prevString := true
	for i, x := range a {
		_, isString := x.(string)
		if i > 0 && !isString && !prevString {
			sb.WriteByte(' ')
		}
		sb.WriteString(value(x, 'v', false))
		prevString = isString
	}
	return sb.String()
}

func Sprintf(format string, a ...interface{}) string {
	var sb strings.Builder
	argi := 0
	for i := 0; i < len(format); i++ {
		c := format[i]
		if c != '%' {
			sb.WriteByte(c)
			continue
		}
		i++
		if i >= len(format) {
			sb.WriteString("%!(NOVERB)")
			break
		}
		if format[i] == '%' {
			sb.WriteByte('%')
			continue
		}
		minus, zero, plus := false, false, false
		for ; i < len(format); i++ {
			switch format[i] {
			case '-':
				minus = true
				continue
			case '0':
				zero = true
				continue
			case '+':
				plus = true
				continue
			case ' ', '#':
				continue
			}
			break
		}
		width, prec := -1, -1
		for ; i < len(format) && format[i] >= '0' && format[i] <= '9'; i++ {
			if width < 0 {
				width = 0
			}
			width = width*10 + int(format[i]-'0')
		}
		if i < len(format) && format[i] == '.' {
			prec = 0
			for i++; i < len(format) && format[i] >= '0' && format[i] <= '9'; i++ {
				prec = prec*10 + int(format[i]-'0')
			}
		}
		if i >= len(format) {
			sb.WriteString("%!(NOVERB)")
			break
		}
		verb := format[i]
		if argi >= len(a) {
			sb.WriteString("%!" + string(verb) + "(MISSING)")
			continue
		}
		arg := a[argi]
		argi++
		var s string
		switch verb {
		case 'f', 'g', 'e':
			p := prec
			if p < 0 {
				p = 6
			}
			switch v := arg.(type) {
			case float64:
				s = strconv.FormatFloat(v, byte(verb), p, 64)
			case float32:
				s = strconv.FormatFloat(float64(v), byte(verb), p, 32)
			default:
				s = fmt.Sprintf("%"+string(verb), arg)
			}
		case 's', 'v', 'q', 'x', 'X', 'd', 't', 'c', 'T', 'w':
			s = value(arg, verb, plus)
			if prec >= 0 && (verb == 's' || verb == 'v' || verb == 'q') {
				if r := []rune(s); len(r) > prec {
					s = string(r[:prec])
				}
			}
		default:
			s = fmt.Sprintf("%"+string(verb), arg)
		}
		if width > len(s) {
			pad := width - len(s)
			switch {
			case minus:
				s += strings.Repeat(" ", pad)
			case zero && (verb == 'd' || verb == 'f' || verb == 'x' || verb == 'X'):
				if len(s) > 0 && (s[0] == '-' || s[0] == '+') {
					s = s[:1] + strings.Repeat("0", pad) + s[1:]
				} else {
					s = strings.Repeat("0", pad) + s
				}
			default:
				s = strings.Repeat(" ", pad) + s
			}
		}
		sb.WriteString(s)
	}
	if argi < len(a) {
		sb.WriteString("%!(EXTRA)")
	}
	return sb.String()
}

func value(arg interface{}, verb byte, plus bool) string {
	if verb == 'T' {
		return fmt.Sprintf("%T", arg)
	}
	hex := func(b []byte, upper bool) string {
		const lo, up = "0123456789abcdef", "0123456789ABCDEF"
		d := lo
		if upper {
			d = up
		}
		out := make([]byte, 0, 2*len(b))
		for _, c := range b {
			out = append(out, d[c>>4], d[c&15])
		}
		return string(out)
	}
	str := func(s string) string {
		switch verb {
		case 'q':
			return strconv.Quote(s)
		case 'x':
			return hex([]byte(s), false)
		case 'X':
			return hex([]byte(s), true)
		}
		return s
	}
	i64 := func(v int64) string {
		switch verb {
		case 'x':
			return strconv.FormatInt(v, 16)
		case 'X':
			return strings.ToUpper(strconv.FormatInt(v, 16))
		case 'c':
			return string(rune(v))
		case 'q':
			return strconv.QuoteRune(rune(v))
		}
		if plus && v >= 0 && verb == 'd' {
			return "+" + strconv.FormatInt(v, 10)
		}
		return strconv.FormatInt(v, 10)
	}
	u64 := func(v uint64) string {
		switch verb {
		case 'x':
			return strconv.FormatUint(v, 16)
		case 'X':
			return strings.ToUpper(strconv.FormatUint(v, 16))
		case 'c':
			return string(rune(v))
		}
		return strconv.FormatUint(v, 10)
	}
	switch v := arg.(type) {
	case nil:
		if verb == 'd' || verb == 's' {
			return "%!" + string(verb) + "(<nil>)"
		}
		return "<nil>"
	case string:
		return str(v)
	case []byte:
		switch verb {
		case 'x':
			return hex(v, false)
		case 'X':
			return hex(v, true)
		case 's', 'q':
			return str(string(v))
		}
	case bool:
		return strconv.FormatBool(v)
	case int:
		return i64(int64(v))
	case int8:
		return i64(int64(v))
	case int16:
		return i64(int64(v))
	case int32:
		return i64(int64(v))
	case int64:
		return i64(v)
	case uint:
		return u64(uint64(v))
	case uint8:
		return u64(uint64(v))
	case uint16:
		return u64(uint64(v))
	case uint32:
		return u64(uint64(v))
	case uint64:
		return u64(v)
	case time.Duration:
		if verb == 'd' {
			return i64(int64(v))
		}
		return str(v.String())
	case float64:
		if verb == 'v' {
			return strconv.FormatFloat(v, 'g', -1, 64)
		}
	case error:
		if verb != 'd' && verb != 'x' {
			return str(v.Error())
		}
	case fmt.Stringer:
		if verb != 'd' && verb != 'x' && !plus {
			return str(v.String())
		}
	}
	// composite or unusual operand: the standard formatter (rare)
	f := "%" + string(verb)
	if plus {
		f = "%+" + string(verb)
	}
	if verb == 'w' {
		f = "%v"
	}
	return fmt.Sprintf(f, arg)
}
