// Package hsync stands in for "sync" inside the simulator's own code (runtime
// and harness) in race-detector builds: its locks exclude each other for real
// but are invisible to the detector, so that the harness's bookkeeping does not
// add happens-before edges between goroutines of the system under test.
package hsync

import (
	"runtime"
	"sync"
)

type (
	Locker    = sync.Locker
	Once      = sync.Once
	Map       = sync.Map
	Pool      = sync.Pool
	Cond      = sync.Cond
	WaitGroup = sync.WaitGroup
)

func NewCond(l Locker) *Cond { return sync.NewCond(l) }

type Mutex struct{ m sync.Mutex }

//go:norace
func (m *Mutex) Lock() { runtime.RaceDisable(); m.m.Lock(); runtime.RaceEnable() }

//go:norace
func (m *Mutex) Unlock() { runtime.RaceDisable(); m.m.Unlock(); runtime.RaceEnable() }

//go:norace
func (m *Mutex) TryLock() bool {
	runtime.RaceDisable()
	ok := m.m.TryLock()
	runtime.RaceEnable()
	return ok
}

type RWMutex struct{ m sync.RWMutex }

//go:norace
func (m *RWMutex) Lock() { runtime.RaceDisable(); m.m.Lock(); runtime.RaceEnable() }

//go:norace
func (m *RWMutex) Unlock() { runtime.RaceDisable(); m.m.Unlock(); runtime.RaceEnable() }

//go:norace
func (m *RWMutex) RLock() { runtime.RaceDisable(); m.m.RLock(); runtime.RaceEnable() }

//go:norace
func (m *RWMutex) RUnlock() { runtime.RaceDisable(); m.m.RUnlock(); runtime.RaceEnable() }
