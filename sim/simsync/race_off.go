//go:build !race

package simsync

func raceAcquire[T any](p *T)      {}
func raceRelease[T any](p *T)      {}
func raceReleaseMerge[T any](p *T) {}
