//go:build !race

package simsync

import "sync"

func raceAcquire[T any](p *T)      {}
func raceRelease[T any](p *T)      {}
func raceReleaseMerge[T any](p *T) {}

// imutex guards the simulated primitives' own bookkeeping.
type imutex = sync.Mutex
