//go:build race

package simsync

import (
	"runtime"
	"unsafe"
)

func raceAcquire[T any](p *T)      { runtime.RaceAcquire(unsafe.Pointer(p)) }
func raceRelease[T any](p *T)      { runtime.RaceRelease(unsafe.Pointer(p)) }
func raceReleaseMerge[T any](p *T) { runtime.RaceReleaseMerge(unsafe.Pointer(p)) }
