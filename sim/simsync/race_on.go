//go:build race

package simsync

import (
	"runtime"
	"unsafe"

	"github.com/elementsproject/peerswap/verifsim/hsync"
)

// imutex guards the simulated primitives' own bookkeeping. It must be invisible
// to the detector: a visible lock here would order every user of a simulated
// RWMutex after the previous one, readers included.
type imutex = hsync.Mutex

func raceAcquire[T any](p *T)      { runtime.RaceAcquire(unsafe.Pointer(p)) }
func raceRelease[T any](p *T)      { runtime.RaceRelease(unsafe.Pointer(p)) }
func raceReleaseMerge[T any](p *T) { runtime.RaceReleaseMerge(unsafe.Pointer(p)) }
