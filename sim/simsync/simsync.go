// Package simsync replaces "sync" in the instrumented peerswap build. Its
// primitives are owned by the simulator's scheduler: acquiring is a scheduling
// point, waiting is visible in the wait-for graph, and a crashed process's
// locks are released. Outside a simulation they behave like package sync.
package simsync

import (
	"fmt"
	"sync"
	"sync/atomic"

	"github.com/elementsproject/peerswap/verifsim/rt"
)

type (
	Locker = sync.Locker
	Once   = sync.Once
	Map    = sync.Map
	Pool   = sync.Pool
)

var idCounter atomic.Int64

// harness is the pseudo-owner used when a non-task goroutine (the scheduler /
// harness) takes a lock during a simulation.
var harness = &rt.Task{ID: "harness", Node: -1, Name: "harness"}

// ---------------------------------------------------------------------------
// Mutex

type mstate struct {
	mu      imutex
	id      int64
	owner   *rt.Task
	waiters []*rt.Task
}

type Mutex struct {
	real  sync.Mutex
	st    atomic.Pointer[mstate]
	realH atomic.Bool
}

func (m *Mutex) state() *mstate {
	if s := m.st.Load(); s != nil {
		return s
	}
	n := &mstate{id: idCounter.Add(1)}
	if m.st.CompareAndSwap(nil, n) {
		return n
	}
	return m.st.Load()
}

type mutexTarget struct{ st *mstate }

func (w mutexTarget) Owners() []*rt.Task {
	w.st.mu.Lock()
	defer w.st.mu.Unlock()
	if w.st.owner == nil {
		return nil
	}
	return []*rt.Task{w.st.owner}
}
func (w mutexTarget) Label() string { return fmt.Sprintf("mutex#%d", w.st.id) }

func (w mutexTarget) ForceRelease(t *rt.Task) {
	w.st.mu.Lock()
	var ws []*rt.Task
	if w.st.owner == t {
		w.st.owner = nil
		ws = w.st.waiters
		w.st.waiters = nil
	}
	w.st.mu.Unlock()
	wakeAll(ws)
}

func wakeAll(ws []*rt.Task) {
	if s := rt.Cur(); s != nil {
		for _, w := range ws {
			s.MakeReady(w)
		}
	}
}

func (m *Mutex) Lock() {
	s := rt.Cur()
	if s == nil {
		m.real.Lock()
		m.realH.Store(true)
		return
	}
	st := m.state()
	t := rt.Self()
	if t == nil {
		st.mu.Lock()
		if st.owner != nil {
			o := st.owner
			st.mu.Unlock()
			panic(fmt.Sprintf("simsync: harness goroutine would block on mutex#%d held by %s[%s]", st.id, o.ID, o.Name))
		}
		st.owner = harness
		st.mu.Unlock()
		return
	}
	if t.Dying() {
		return
	}
	rt.Yield("lock")
	for {
		st.mu.Lock()
		if st.owner == nil {
			st.owner = t
			st.mu.Unlock()
			t.Hold(mutexTarget{st})
			raceAcquire(st)
			return
		}
		st.waiters = append(st.waiters, t)
		st.mu.Unlock()
		t.Block("lockwait", mutexTarget{st})
	}
}

func (m *Mutex) TryLock() bool {
	s := rt.Cur()
	if s == nil {
		ok := m.real.TryLock()
		if ok {
			m.realH.Store(true)
		}
		return ok
	}
	st := m.state()
	t := rt.Self()
	if t == nil {
		t = harness
	}
	st.mu.Lock()
	defer st.mu.Unlock()
	if st.owner == nil {
		st.owner = t
		if t != harness {
			t.Hold(mutexTarget{st})
		}
		raceAcquire(st)
		return true
	}
	return false
}

func (m *Mutex) Unlock() {
	s := rt.Cur()
	if s == nil || (m.realH.Load() && m.st.Load() == nil) {
		m.realH.Store(false)
		m.real.Unlock()
		return
	}
	st := m.state()
	t := rt.Self()
	st.mu.Lock()
	if t != nil && t.Dying() && st.owner != t {
		st.mu.Unlock()
		return
	}
	if st.owner == nil {
		st.mu.Unlock()
		if t != nil && t.Dying() {
			return
		}
		panic("simsync: unlock of unlocked mutex")
	}
	o := st.owner
	raceRelease(st)
	st.owner = nil
	ws := st.waiters
	st.waiters = nil
	st.mu.Unlock()
	if o != harness {
		o.Unhold(mutexTarget{st})
	}
	wakeAll(ws)
}

// ---------------------------------------------------------------------------
// RWMutex

type rwstate struct {
	mu       imutex
	id       int64
	writer   *rt.Task
	readers  map[*rt.Task]int
	wwaiting int
	// race-detector addresses, used exactly as sync.RWMutex uses readerSem and
	// writerSem: readers are ordered after writers and writers after readers,
	// readers are not ordered among themselves
	rsem, wsem [8]byte
	waiters  []*rt.Task
}

type RWMutex struct {
	real sync.RWMutex
	st   atomic.Pointer[rwstate]
}

func (m *RWMutex) state() *rwstate {
	if s := m.st.Load(); s != nil {
		return s
	}
	n := &rwstate{id: idCounter.Add(1), readers: map[*rt.Task]int{}}
	if m.st.CompareAndSwap(nil, n) {
		return n
	}
	return m.st.Load()
}

type rwTarget struct{ st *rwstate }

func (w rwTarget) Owners() []*rt.Task {
	w.st.mu.Lock()
	defer w.st.mu.Unlock()
	if w.st.writer != nil {
		return []*rt.Task{w.st.writer}
	}
	var out []*rt.Task
	for r := range w.st.readers {
		out = append(out, r)
	}
	return out
}
func (w rwTarget) Label() string { return fmt.Sprintf("rwmutex#%d", w.st.id) }
func (w rwTarget) ForceRelease(t *rt.Task) {
	w.st.mu.Lock()
	if w.st.writer == t {
		w.st.writer = nil
	}
	delete(w.st.readers, t)
	ws := w.st.waiters
	w.st.waiters = nil
	w.st.mu.Unlock()
	wakeAll(ws)
}

func (m *RWMutex) Lock() {
	s := rt.Cur()
	if s == nil {
		m.real.Lock()
		return
	}
	st := m.state()
	t := rt.Self()
	if t == nil {
		st.mu.Lock()
		if st.writer != nil || len(st.readers) > 0 {
			st.mu.Unlock()
			panic(fmt.Sprintf("simsync: harness goroutine would block on rwmutex#%d", st.id))
		}
		st.writer = harness
		st.mu.Unlock()
		return
	}
	if t.Dying() {
		return
	}
	rt.Yield("lock")
	for {
		st.mu.Lock()
		if st.writer == nil && len(st.readers) == 0 {
			st.writer = t
			st.mu.Unlock()
			t.Hold(rwTarget{st})
			raceAcquire(&st.rsem)
			raceAcquire(&st.wsem)
			return
		}
		st.wwaiting++
		st.waiters = append(st.waiters, t)
		st.mu.Unlock()
		t.Block("lockwait", rwTarget{st})
		st.mu.Lock()
		st.wwaiting--
		st.mu.Unlock()
	}
}

func (m *RWMutex) Unlock() {
	s := rt.Cur()
	if s == nil {
		m.real.Unlock()
		return
	}
	st := m.state()
	t := rt.Self()
	st.mu.Lock()
	if st.writer == nil {
		st.mu.Unlock()
		if t != nil && t.Dying() {
			return
		}
		panic("simsync: unlock of unlocked rwmutex")
	}
	if t != nil && t.Dying() && st.writer != t {
		st.mu.Unlock()
		return
	}
	o := st.writer
	raceRelease(&st.rsem)
	st.writer = nil
	ws := st.waiters
	st.waiters = nil
	st.mu.Unlock()
	if o != harness {
		o.Unhold(rwTarget{st})
	}
	wakeAll(ws)
}

func (m *RWMutex) RLock() {
	s := rt.Cur()
	if s == nil {
		m.real.RLock()
		return
	}
	st := m.state()
	t := rt.Self()
	if t == nil {
		st.mu.Lock()
		if st.writer != nil {
			st.mu.Unlock()
			panic(fmt.Sprintf("simsync: harness goroutine would block on rwmutex#%d", st.id))
		}
		st.readers[harness]++
		st.mu.Unlock()
		return
	}
	if t.Dying() {
		return
	}
	rt.Yield("rlock")
	for {
		st.mu.Lock()
		if st.writer == nil && st.wwaiting == 0 {
			st.readers[t]++
			st.mu.Unlock()
			t.Hold(rwTarget{st})
			raceAcquire(&st.rsem)
			return
		}
		st.waiters = append(st.waiters, t)
		st.mu.Unlock()
		t.Block("rlockwait", rwTarget{st})
	}
}

func (m *RWMutex) RUnlock() {
	s := rt.Cur()
	if s == nil {
		m.real.RUnlock()
		return
	}
	st := m.state()
	t := rt.Self()
	if t == nil {
		t = harness
	}
	st.mu.Lock()
	if st.readers[t] == 0 {
		st.mu.Unlock()
		if t.Dying() {
			return
		}
		panic("simsync: RUnlock of unlocked rwmutex")
	}
	raceReleaseMerge(&st.wsem)
	st.readers[t]--
	var ws []*rt.Task
	if st.readers[t] == 0 {
		delete(st.readers, t)
		if t != harness {
			t.Unhold(rwTarget{st})
		}
	}
	if len(st.readers) == 0 {
		ws = st.waiters
		st.waiters = nil
	}
	st.mu.Unlock()
	wakeAll(ws)
}

func (m *RWMutex) RLocker() Locker { return (*rlocker)(m) }

type rlocker RWMutex

func (r *rlocker) Lock()   { (*RWMutex)(r).RLock() }
func (r *rlocker) Unlock() { (*RWMutex)(r).RUnlock() }

// ---------------------------------------------------------------------------
// Cond

type Cond struct {
	L       Locker
	mu      imutex
	id      int64
	waiters []*rt.Task
	real    *sync.Cond
}

func NewCond(l Locker) *Cond {
	return &Cond{L: l, id: idCounter.Add(1), real: sync.NewCond(l)}
}

type condTarget struct{ c *Cond }

func (w condTarget) Owners() []*rt.Task { return nil }
func (w condTarget) Label() string      { return fmt.Sprintf("cond#%d", w.c.id) }

func (c *Cond) Wait() {
	s := rt.Cur()
	t := rt.Self()
	if s == nil || t == nil {
		c.real.Wait()
		return
	}
	if t.Dying() {
		return
	}
	c.mu.Lock()
	c.waiters = append(c.waiters, t)
	c.mu.Unlock()
	c.L.Unlock()
	t.Block("condwait", condTarget{c})
	c.L.Lock()
}

func (c *Cond) Signal() {
	s := rt.Cur()
	if s == nil {
		c.real.Signal()
		return
	}
	c.mu.Lock()
	var w *rt.Task
	if len(c.waiters) > 0 {
		w = c.waiters[0]
		c.waiters = c.waiters[1:]
	}
	c.mu.Unlock()
	if w != nil {
		s.MakeReady(w)
	}
}

func (c *Cond) Broadcast() {
	s := rt.Cur()
	if s == nil {
		c.real.Broadcast()
		return
	}
	c.mu.Lock()
	ws := c.waiters
	c.waiters = nil
	c.mu.Unlock()
	for _, w := range ws {
		s.MakeReady(w)
	}
}

// ---------------------------------------------------------------------------
// WaitGroup

type WaitGroup struct {
	mu      imutex
	n       int
	waiters []*rt.Task
	real    sync.WaitGroup
	id      atomic.Int64
}

type wgTarget struct{ w *WaitGroup }

func (w wgTarget) Owners() []*rt.Task { return nil }
func (w wgTarget) Label() string      { return "waitgroup" }

func (w *WaitGroup) Add(delta int) {
	if rt.Cur() == nil {
		w.real.Add(delta)
		return
	}
	w.mu.Lock()
	w.n += delta
	if w.n < 0 {
		w.mu.Unlock()
		panic("simsync: negative WaitGroup counter")
	}
	var ws []*rt.Task
	if w.n == 0 {
		ws = w.waiters
		w.waiters = nil
	}
	raceReleaseMerge(w)
	w.mu.Unlock()
	wakeAll(ws)
}

func (w *WaitGroup) Done() { w.Add(-1) }

func (w *WaitGroup) Wait() {
	s := rt.Cur()
	t := rt.Self()
	if s == nil {
		w.real.Wait()
		return
	}
	if t == nil {
		w.mu.Lock()
		n := w.n
		w.mu.Unlock()
		if n != 0 {
			panic("simsync: harness goroutine would block on WaitGroup")
		}
		return
	}
	if t.Dying() {
		return
	}
	rt.Yield("wgwait")
	for {
		w.mu.Lock()
		if w.n == 0 {
			w.mu.Unlock()
			raceAcquire(w)
			return
		}
		w.waiters = append(w.waiters, t)
		w.mu.Unlock()
		t.Block("wgwait", wgTarget{w})
	}
}
