#!/bin/bash
# runs every quick check registered in MANIFEST.json sequentially; prints a summary
cd "$(dirname "$0")/.."
export GOFLAGS=-mod=mod GOPROXY=off GOSUMDB=off GOTOOLCHAIN=local
tier=${1:-quick}
fail=0
for id in $(jq -r '.checks[].property_id' MANIFEST.json); do
  out=$(./check "$id" "$tier" 2>&1); rc=$?
  echo "== $id rc=$rc :: $(echo "$out" | grep -E '^(check |VIOLATION|KNOWN-FINDING)' | tr '\n' '|' | cut -c1-400)"
  [ $rc -ne 0 ] && fail=1
done
exit $fail
