// Command instrument rewrites the non-test sources of the simulated peerswap
// packages (from /repo's current working tree) so that every source of
// scheduling nondeterminism is owned by the simulator runtime, and emits a
// `go build -overlay` file. Nothing in /repo is modified.
//
// Rewrites (see DESIGN.md §2):
//   - import "sync"       -> verifsim/simsync (scheduler-owned primitives)
//   - import "math/rand"  -> verifsim/simrand (seeded)
//   - go f(x)             -> rt.Go(closure), arguments evaluated at the statement
//   - receive-only select -> rt.Select (seeded priority among ready cases)
//   - range over a map    -> iteration in sorted key order
//
// Exit status 2 on anything it does not understand (never a silent skip).
package main

import (
	"encoding/json"
	"flag"
	"fmt"
	"go/ast"
	"go/token"
	"go/types"
	"os"
	"path/filepath"
	"regexp"
	"sort"
	"strings"

	"golang.org/x/tools/go/packages"
)

const modPath = "github.com/elementsproject/peerswap"

// lnrpc.NewLightningClient( / walletrpc.NewWalletKitClient( / routerrpc.NewRouterClient( /
// invoicesrpc.NewInvoicesClient( / chainrpc.NewChainNotifierClient(
var lndClientCtor = regexp.MustCompile(`\b(lnrpc|walletrpc|routerrpc|invoicesrpc|chainrpc)\.New(Lightning|WalletKit|Router|Invoices|ChainNotifier)Client\(`)

const lwkRequestSig = "func (l *lwkclient) request(ctx context.Context, m jrpc2.Method, resp interface{}) error {"

var (
	repo    = flag.String("repo", "/repo", "repository root")
	out     = flag.String("out", "", "output directory for rewritten files and overlay.json")
	simDir  = flag.String("sim", "/verif/sim", "directory holding rt, simsync, simrand, inject")
	pkgList = flag.String("pkgs", "swap messages timer txwatcher electrum lwk policy premium version peersync onchain lnd clightning wallet", "packages to instrument")
	report  = flag.Bool("report", true, "print census")
	glDir   = flag.String("glightning", "", "directory of the github.com/elementsproject/glightning module (tier 3 seam); empty = no seam")
)

type edit struct {
	pos, end int
	render   func() string
}

type rewriter struct {
	fset   *token.FileSet
	file   *token.File
	src    []byte
	info   *types.Info
	edits  []edit
	usesRT bool
	nsel   int
	census map[string]int
	errs   []string
	fname  string
}

func (r *rewriter) off(p token.Pos) int { return r.file.Offset(p) }

// text returns source[a:b) with every edit nested in that range applied.
func (r *rewriter) text(a, b int) string {
	var sb strings.Builder
	curPos := a
	for _, e := range r.edits {
		if e.pos < curPos || e.pos < a || e.end > b {
			continue
		}
		sb.Write(r.src[curPos:e.pos])
		sb.WriteString(e.render())
		curPos = e.end
	}
	sb.Write(r.src[curPos:b])
	return sb.String()
}

// inner returns the text of node n with nested edits applied, excluding an
// edit that covers exactly n itself.
func (r *rewriter) node(n ast.Node) string {
	a, b := r.off(n.Pos()), r.off(n.End())
	var sb strings.Builder
	curPos := a
	for _, e := range r.edits {
		if e.pos < curPos || e.pos < a || e.end > b {
			continue
		}
		if e.pos == a && e.end == b {
			// the edit for n itself: skip it, we are rendering its inside
			continue
		}
		sb.Write(r.src[curPos:e.pos])
		sb.WriteString(e.render())
		curPos = e.end
	}
	sb.Write(r.src[curPos:b])
	return sb.String()
}

func (r *rewriter) errorf(p token.Pos, format string, a ...interface{}) {
	r.errs = append(r.errs, fmt.Sprintf("%s: %s", r.fset.Position(p), fmt.Sprintf(format, a...)))
}

func isConst(info *types.Info, e ast.Expr) bool {
	tv, ok := info.Types[e]
	return ok && tv.Value != nil
}

func hasCall(e ast.Expr) bool {
	found := false
	ast.Inspect(e, func(n ast.Node) bool {
		switch n := n.(type) {
		case *ast.CallExpr:
			found = true
		case *ast.UnaryExpr:
			if n.Op == token.ARROW {
				found = true
			}
		}
		return true
	})
	return found
}

func (r *rewriter) collect(f *ast.File) {
	labeled := map[ast.Stmt]bool{}
	ast.Inspect(f, func(n ast.Node) bool {
		if l, ok := n.(*ast.LabeledStmt); ok {
			labeled[l.Stmt] = true
		}
		return true
	})
	ast.Inspect(f, func(n ast.Node) bool {
		switch n := n.(type) {
		case *ast.ImportSpec:
			path := strings.Trim(n.Path.Value, "\"")
			var repl string
			switch path {
			case "sync":
				repl = modPath + "/verifsim/simsync"
			case "math/rand":
				repl = modPath + "/verifsim/simrand"
			default:
				return true
			}
			name := map[string]string{"sync": "sync", "math/rand": "rand"}[path]
			if n.Name != nil {
				name = n.Name.Name
			}
			r.census["import:"+path]++
			a, b := r.off(n.Pos()), r.off(n.End())
			r.edits = append(r.edits, edit{a, b, func() string { return fmt.Sprintf("%s %q", name, repl) }})
		case *ast.GoStmt:
			r.census["go"]++
			r.usesRT = true
			g := n
			a, b := r.off(g.Pos()), r.off(g.End())
			r.edits = append(r.edits, edit{a, b, func() string { return r.renderGo(g) }})
		case *ast.SelectStmt:
			sel := n
			kind := r.classifySelect(sel)
			switch kind {
			case "recv", "mixed":
				r.census["select"]++
				if kind == "mixed" {
					r.census["select:with-send"]++
				}
				r.usesRT = true
				if labeled[sel] {
					r.errorf(sel.Pos(), "labeled select statement not supported")
				}
				r.nsel++
				id := r.nsel
				a, b := r.off(sel.Pos()), r.off(sel.End())
				r.edits = append(r.edits, edit{a, b, func() string { return r.renderSelect(sel, id) }})
			case "send-default":
				r.census["select:send+default(left)"]++
			case "empty":
			default:
				r.errorf(sel.Pos(), "select statement of unsupported shape (%s)", kind)
			}
		case *ast.RangeStmt:
			t := r.info.TypeOf(n.X)
			if t == nil {
				r.errorf(n.Pos(), "no type for range expression")
				return true
			}
			if _, ok := t.Underlying().(*types.Map); !ok {
				return true
			}
			r.census["maprange"]++
			r.usesRT = true
			rs := n
			if labeled[rs] && hasCall(rs.X) {
				r.errorf(rs.Pos(), "labeled range over a map-valued call not supported")
			}
			if m, ok := t.Underlying().(*types.Map); ok {
				switch m.Key().Underlying().(type) {
				case *types.Pointer, *types.Chan, *types.Interface, *types.Signature:
					r.census["maprange:identity-key@"+r.fset.Position(n.Pos()).String()]++
				}
			}
			r.nsel++
			id := r.nsel
			a, b := r.off(rs.Pos()), r.off(rs.End())
			r.edits = append(r.edits, edit{a, b, func() string { return r.renderRange(rs, id) }})
		}
		return true
	})
	sort.SliceStable(r.edits, func(i, j int) bool {
		if r.edits[i].pos != r.edits[j].pos {
			return r.edits[i].pos < r.edits[j].pos
		}
		return r.edits[i].end > r.edits[j].end
	})
}

func (r *rewriter) renderGo(g *ast.GoStmt) string {
	call := g.Call
	var sb strings.Builder
	sb.WriteString("verifsimrt.Go(func() func() { ")
	// function value
	fun := r.exprText(call.Fun)
	sb.WriteString("__f := " + fun + "; ")
	var args []string
	for i, a := range call.Args {
		if isConst(r.info, a) {
			args = append(args, r.exprText(a))
			continue
		}
		name := fmt.Sprintf("__a%d", i)
		sb.WriteString(name + " := " + r.exprText(a) + "; ")
		args = append(args, name)
	}
	if call.Ellipsis.IsValid() && len(args) > 0 {
		args[len(args)-1] += "..."
	}
	sb.WriteString("return func() { __f(" + strings.Join(args, ", ") + ") } }())")
	return sb.String()
}

func (r *rewriter) exprText(e ast.Expr) string {
	return r.text(r.off(e.Pos()), r.off(e.End()))
}

func (r *rewriter) classifySelect(sel *ast.SelectStmt) string {
	if len(sel.Body.List) == 0 {
		return "empty"
	}
	nrecv, nsend, ndef := 0, 0, 0
	for _, c := range sel.Body.List {
		cc := c.(*ast.CommClause)
		switch s := cc.Comm.(type) {
		case nil:
			ndef++
		case *ast.SendStmt:
			nsend++
		case *ast.ExprStmt:
			if u, ok := s.X.(*ast.UnaryExpr); ok && u.Op == token.ARROW {
				nrecv++
			} else {
				return "odd-expr"
			}
		case *ast.AssignStmt:
			if len(s.Rhs) == 1 {
				if u, ok := s.Rhs[0].(*ast.UnaryExpr); ok && u.Op == token.ARROW {
					nrecv++
					continue
				}
			}
			return "odd-assign"
		default:
			return "odd"
		}
	}
	if nsend == 0 {
		return "recv"
	}
	if nsend == 1 && nrecv == 0 && ndef == 1 {
		return "send-default"
	}
	return "mixed"
}

func (r *rewriter) renderSelect(sel *ast.SelectStmt, id int) string {
	var sb strings.Builder
	sb.WriteString("{\n")
	type cl struct {
		idx  int
		cc   *ast.CommClause
		lhs  []ast.Expr
		tok  token.Token
		chn  string
		body string
		sendVal string
		isSend  bool
	}
	var cls []cl
	hasDefault := false
	n := 0
	for ci, c := range sel.Body.List {
		cc := c.(*ast.CommClause)
		// body text: from after colon to start of next clause / closing brace
		endPos := sel.Body.Rbrace
		if ci+1 < len(sel.Body.List) {
			endPos = sel.Body.List[ci+1].Pos()
		}
		body := r.text(r.off(cc.Colon)+1, r.off(endPos))
		k := cl{cc: cc, body: body}
		switch s := cc.Comm.(type) {
		case nil:
			hasDefault = true
			k.idx = -1
		case *ast.SendStmt:
			k.idx = n
			k.chn = r.exprText(s.Chan)
			k.sendVal = r.exprText(s.Value)
			k.isSend = true
			n++
		case *ast.ExprStmt:
			u := s.X.(*ast.UnaryExpr)
			k.idx = n
			k.chn = r.exprText(u.X)
			n++
		case *ast.AssignStmt:
			u := s.Rhs[0].(*ast.UnaryExpr)
			k.idx = n
			k.chn = r.exprText(u.X)
			k.lhs = s.Lhs
			k.tok = s.Tok
			n++
		}
		cls = append(cls, k)
	}
	var names []string
	anySend := false
	for _, k := range cls {
		if k.idx < 0 {
			continue
		}
		nm := fmt.Sprintf("__c%d_%d", k.idx, id)
		fmt.Fprintf(&sb, "%s := %s\n", nm, k.chn)
		if k.isSend {
			anySend = true
			fmt.Fprintf(&sb, "var __v%d_%d interface{} = %s\n", k.idx, id, k.sendVal)
			names = append(names, fmt.Sprintf("verifsimrt.SendCase(%s, __v%d_%d)", nm, k.idx, id))
		} else {
			names = append(names, fmt.Sprintf("verifsimrt.RecvCase(%s)", nm))
		}
	}
	_ = anySend
	fmt.Fprintf(&sb, "__i_%d, __rv_%d, __ok_%d := verifsimrt.SelectX(%v, %s)\n", id, id, id, hasDefault, strings.Join(ifaces(names), ", "))
	fmt.Fprintf(&sb, "_, _ = __rv_%d, __ok_%d\n", id, id)
	fmt.Fprintf(&sb, "switch __i_%d {\n", id)
	for _, k := range cls {
		fmt.Fprintf(&sb, "case %d:\n", k.idx)
		if len(k.lhs) > 0 {
			nm := fmt.Sprintf("__c%d_%d", k.idx, id)
			var l []string
			for _, e := range k.lhs {
				l = append(l, r.exprText(e))
			}
			if len(l) == 1 {
				fmt.Fprintf(&sb, "%s %s verifsimrt.Cast(%s, __rv_%d)\n", l[0], k.tok, nm, id)
			} else {
				fmt.Fprintf(&sb, "%s %s verifsimrt.Cast(%s, __rv_%d), __ok_%d\n", strings.Join(l, ", "), k.tok, nm, id, id)
			}
		}
		sb.WriteString(k.body)
		sb.WriteString("\n")
	}
	sb.WriteString("}\n}")
	return sb.String()
}

func ifaces(n []string) []string { return n }

func (r *rewriter) renderRange(rs *ast.RangeStmt, id int) string {
	var sb strings.Builder
	x := r.exprText(rs.X)
	hoist := hasCall(rs.X)
	m := "(" + x + ")"
	if hoist {
		m = fmt.Sprintf("__m_%d", id)
		fmt.Fprintf(&sb, "{\n%s := %s\n", m, x)
	}
	kn := fmt.Sprintf("__k_%d", id)
	vn := fmt.Sprintf("__v_%d", id)
	fmt.Fprintf(&sb, "for _, %s := range verifsimrt.SortedKeys(%s) {\n", kn, m)
	blank := func(e ast.Expr) bool {
		if e == nil {
			return true
		}
		id, ok := e.(*ast.Ident)
		return ok && id.Name == "_"
	}
	if blank(rs.Value) {
		fmt.Fprintf(&sb, "if _, __ok := %s[%s]; !__ok { continue }\n", m, kn)
	} else {
		fmt.Fprintf(&sb, "%s, __ok_%d := %s[%s]\nif !__ok_%d { continue }\n", vn, id, m, kn, id)
	}
	tok := rs.Tok.String()
	if !blank(rs.Key) {
		fmt.Fprintf(&sb, "%s %s %s\n", r.exprText(rs.Key), tok, kn)
	}
	if !blank(rs.Value) {
		fmt.Fprintf(&sb, "%s %s %s\n", r.exprText(rs.Value), tok, vn)
	}
	// body without the braces
	sb.WriteString(r.text(r.off(rs.Body.Lbrace)+1, r.off(rs.Body.Rbrace)))
	sb.WriteString("\n}")
	if hoist {
		sb.WriteString("\n}")
	}
	return sb.String()
}

// copyTree copies a (read-only) module directory, making the copy writable.
func copyTree(src, dst string) error {
	return filepath.Walk(src, func(path string, fi os.FileInfo, err error) error {
		if err != nil {
			return err
		}
		rel, _ := filepath.Rel(src, path)
		to := filepath.Join(dst, rel)
		if fi.IsDir() {
			return os.MkdirAll(to, 0o755)
		}
		b, err := os.ReadFile(path)
		if err != nil {
			return err
		}
		return os.WriteFile(to, b, 0o644)
	})
}

func main() {
	flag.Parse()
	if *out == "" {
		fmt.Fprintln(os.Stderr, "instrument: -out required")
		os.Exit(2)
	}
	pkgs := strings.Fields(*pkgList)
	var patterns []string
	for _, p := range pkgs {
		patterns = append(patterns, "./"+p)
	}
	cfg := &packages.Config{
		Mode: packages.NeedName | packages.NeedFiles | packages.NeedCompiledGoFiles | packages.NeedSyntax |
			packages.NeedTypes | packages.NeedTypesInfo | packages.NeedImports,
		Dir: *repo,
		Env: append(os.Environ(), "GOFLAGS=-mod=mod", "GOPROXY=off", "GOSUMDB=off", "GOTOOLCHAIN=local"),
	}
	loaded, err := packages.Load(cfg, patterns...)
	if err != nil {
		fmt.Fprintln(os.Stderr, "instrument: load:", err)
		os.Exit(2)
	}
	overlay := map[string]string{}
	census := map[string]int{}
	var errs []string
	for _, p := range loaded {
		for _, e := range p.Errors {
			errs = append(errs, e.Error())
		}
		for i, f := range p.Syntax {
			fname := p.CompiledGoFiles[i]
			if !strings.HasPrefix(fname, *repo+"/") || strings.HasSuffix(fname, "_test.go") {
				continue
			}
			src, err := os.ReadFile(fname)
			if err != nil {
				errs = append(errs, err.Error())
				continue
			}
			r := &rewriter{fset: p.Fset, file: p.Fset.File(f.Pos()), src: src, info: p.TypesInfo, census: census, fname: fname}
			r.collect(f)
			errs = append(errs, r.errs...)
			lndSeam := p.PkgPath == modPath+"/lnd" && lndClientCtor.Match(src)
			lwkSeam := p.PkgPath == modPath+"/lwk" && strings.Contains(string(src), lwkRequestSig)
			if len(r.edits) == 0 && !lndSeam && !lwkSeam {
				continue
			}
			res := r.text(0, len(src))
			if lwkSeam {
				// package lwk: the JSON-RPC transport of the lwk client is answered by the simulated
				// lwk (hook variable in the injected sim/inject/lwk/simctor.go); with no hook
				// installed the function behaves as before
				if strings.Count(res, lwkRequestSig) != 1 {
					errs = append(errs, "lwk seam: request function not found exactly once in "+fname)
				}
				res = strings.Replace(res, lwkRequestSig, lwkRequestSig+"\n\tif SimLwkTransport != nil {\n\t\tif handled, err := SimLwkTransport(ctx, m, resp); handled {\n\t\t\treturn err\n\t\t}\n\t}\n", 1)
				census["lwk:transport-hook"]++
			}
			if lndSeam {
				// package lnd: the generated gRPC client constructors are answered by the
				// simulated LND (verifsim/lndhook); everything else stays the adapter's own code
				census["lnd:grpc-client-constructor"] += len(lndClientCtor.FindAllString(res, -1))
				res = lndClientCtor.ReplaceAllString(res, "verifsimlndhook.New${2}Client(")
				lines := strings.SplitAfter(res, "\n")
				for li, l := range lines {
					if strings.HasPrefix(l, "package ") {
						lines[li] = l + "import verifsimlndhook \"" + modPath + "/verifsim/lndhook\"\n"
						break
					}
				}
				res = strings.Join(lines, "")
				// an import that only served the constructor call would now be unused
				for _, imp := range []string{"lnrpc", "walletrpc", "routerrpc", "invoicesrpc", "chainrpc"} {
					if !regexp.MustCompile(`\b` + imp + `\.`).MatchString(res) {
						res = regexp.MustCompile(`(?m)^\s*"github.com/lightningnetwork/lnd/lnrpc(/`+imp+`)?"\s*$`).ReplaceAllStringFunc(res, func(m string) string {
							if strings.HasSuffix(strings.TrimSpace(m), "/"+imp+"\"") || (imp == "lnrpc" && strings.HasSuffix(strings.TrimSpace(m), "lnd/lnrpc\"")) {
								return ""
							}
							return m
						})
					}
				}
			}
			if r.usesRT {
				// add the rt import right after the package clause
				pkgEnd := r.off(f.Name.End())
				// recompute on result text: find "package <name>" first occurrence after offset mapping is hard;
				// instead insert textually after the first line that starts with "package ".
				_ = pkgEnd
				lines := strings.SplitAfter(res, "\n")
				for li, l := range lines {
					if strings.HasPrefix(l, "package ") {
						lines[li] = l + "import verifsimrt \"" + modPath + "/verifsim/rt\"\n"
						break
					}
				}
				res = strings.Join(lines, "")
			}
			rel := strings.TrimPrefix(fname, *repo+"/")
			dst := filepath.Join(*out, "src", rel)
			if err := os.MkdirAll(filepath.Dir(dst), 0o755); err != nil {
				errs = append(errs, err.Error())
				continue
			}
			if err := os.WriteFile(dst, []byte(res), 0o644); err != nil {
				errs = append(errs, err.Error())
				continue
			}
			overlay[fname] = dst
		}
	}
	// virtual packages
	for _, vp := range []string{"rt", "simsync", "simrand", "hsync", "vfmt", "lndhook"} {
		ents, err := os.ReadDir(filepath.Join(*simDir, vp))
		if err != nil {
			errs = append(errs, err.Error())
			continue
		}
		for _, e := range ents {
			if strings.HasSuffix(e.Name(), ".go") && !strings.HasSuffix(e.Name(), "_test.go") {
				overlay[filepath.Join(*repo, "verifsim", vp, e.Name())] = filepath.Join(*simDir, vp, e.Name())
			}
		}
	}
	// tier 3 seam: the clightning adapter reaches lightningd and bitcoind through
	// glightning's jrpc2.Client.Request* and gbitcoin.Bitcoin.request. Copies of those two
	// files of the (pinned, read-only) glightning module get a hook at the top of these
	// functions; with no hook installed they behave as before.
	if *glDir != "" {
		type patch struct{ file, fn, hook, tail string }
		for _, pt := range []patch{
			{"jrpc2/client.go", "func (c *Client) Request(m Method, resp interface{}) error {",
				"\tif SimTransport != nil {\n\t\tif handled, err := SimTransport(c, m, resp, true); handled {\n\t\t\treturn err\n\t\t}\n\t}\n", ""},
			{"jrpc2/client.go", "func (c *Client) RequestNoTimeout(m Method, resp interface{}) error {",
				"\tif SimTransport != nil {\n\t\tif handled, err := SimTransport(c, m, resp, false); handled {\n\t\t\treturn err\n\t\t}\n\t}\n",
				"\n// SimTransport, when set, answers requests instead of the socket (simulation builds only).\nvar SimTransport func(c *Client, m Method, resp interface{}, withTimeout bool) (bool, error)\n\n// SimTimeout is the request timeout configured for this client.\nfunc (c *Client) SimTimeout() time.Duration { return c.timeout * time.Second }\n"},
			{"gbitcoin/bitcoind.go", "func (b *Bitcoin) request(m jrpc2.Method, resp interface{}) error {",
				"\tif SimTransport != nil {\n\t\tif handled, err := SimTransport(b, m, resp); handled {\n\t\t\treturn err\n\t\t}\n\t}\n",
				"\n// SimTransport, when set, answers requests instead of the HTTP endpoint (simulation builds only).\nvar SimTransport func(b *Bitcoin, m jrpc2.Method, resp interface{}) (bool, error)\n"},
		} {
			orig := filepath.Join(*glDir, pt.file)
			// (go build refuses overlay replacements beneath GOMODCACHE, so the module is copied
			// whole next to the overlay and the harness go.mod replaces the module with the copy)
			copyRoot := filepath.Join(*out, "glightning")
			if _, err := os.Stat(filepath.Join(copyRoot, "go.mod")); err != nil {
				if err := copyTree(*glDir, copyRoot); err != nil {
					errs = append(errs, err.Error())
					continue
				}
			}
			dst := filepath.Join(copyRoot, pt.file)
			srcBytes, err := os.ReadFile(dst)
			if err != nil {
				errs = append(errs, err.Error())
				continue
			}
			text := string(srcBytes)
			if strings.Count(text, pt.fn) != 1 {
				errs = append(errs, fmt.Sprintf("glightning seam: %q not found exactly once in %s", pt.fn, orig))
				continue
			}
			text = strings.Replace(text, pt.fn, pt.fn+"\n"+pt.hook, 1) + pt.tail
			if err := os.WriteFile(dst, []byte(text), 0o644); err != nil {
				errs = append(errs, err.Error())
				continue
			}
			census["glightning:transport-hook"]++
		}
	}
	// injected overlay-only files: <sim>/inject/<pkg path>/<file>.go -> /repo/<pkg path>/zz_verif_<file>.go
	injRoot := filepath.Join(*simDir, "inject")
	filepath.Walk(injRoot, func(path string, fi os.FileInfo, err error) error {
		if err != nil || fi.IsDir() || !strings.HasSuffix(path, ".go") {
			return nil
		}
		rel, _ := filepath.Rel(injRoot, path)
		dir, base := filepath.Split(rel)
		overlay[filepath.Join(*repo, dir, "zz_verif_"+base)] = path
		return nil
	})
	if len(errs) > 0 {
		for _, e := range errs {
			fmt.Fprintln(os.Stderr, "instrument:", e)
		}
		os.Exit(2)
	}
	ob, _ := json.MarshalIndent(map[string]interface{}{"Replace": overlay}, "", " ")
	if err := os.WriteFile(filepath.Join(*out, "overlay.json"), ob, 0o644); err != nil {
		fmt.Fprintln(os.Stderr, "instrument:", err)
		os.Exit(2)
	}
	if *report {
		var ks []string
		for k := range census {
			ks = append(ks, k)
		}
		sort.Strings(ks)
		for _, k := range ks {
			fmt.Printf("instrument: %-40s %d\n", k, census[k])
		}
		fmt.Printf("instrument: %d files rewritten\n", len(overlay))
	}
}
