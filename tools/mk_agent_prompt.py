#!/usr/bin/env python3
"""usage: mk_agent_prompt.py <prop id> <wave> [package hint]  -> prints the prompt for a seeding sub-agent; creates the worktree /tmp/wt-<id>-<wave> and /tmp/seed-<id>-<wave>"""
import json, os, subprocess, sys, glob
pid, wave = sys.argv[1], sys.argv[2]
V = os.path.dirname(os.path.dirname(os.path.abspath(__file__)))
wt, out = "/tmp/wt-%s-%s" % (pid, wave), "/tmp/seed-%s-%s" % (pid, wave)
if not os.path.exists(wt):
    subprocess.run(["git", "-C", "/repo", "worktree", "add", "--detach", wt, "HEAD"], check=True, capture_output=True)
os.makedirs(out, exist_ok=True)
prop = [l for l in open(os.path.join(V, "properties.jsonl")) if json.loads(l)["id"] == pid][0].strip()
tpl = open(os.path.join(V, "tools", "agent_prompt.txt")).read()
avoid = []
for m in sorted(glob.glob(os.path.join(V, "seeded", pid + "-*", "meta.json"))):
    avoid.append("- " + json.load(open(m)).get("summary", "")[:500])
p = tpl.replace("{WT}", wt).replace("{OUT}", out).replace("{PROP}", prop).replace("{ID}", pid)
if avoid:
    p += "\n\nOther people have already proposed the following change(s) for this property; propose something that breaks the property through a DIFFERENT mechanism / code site / circumstance:\n" + "\n".join(avoid)
if len(sys.argv) > 3:
    p += "\n\nFor this round, place the change in (or reach it through) the package `%s` of the repository, if the property can be broken there." % sys.argv[3]
print(p)
