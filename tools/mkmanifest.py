#!/usr/bin/env python3
"""Generates /verif/MANIFEST.json from the table below (kept here so the manifest stays consistent)."""
import json, os
V = os.path.dirname(os.path.dirname(os.path.abspath(__file__)))
CHECKS = json.load(open(os.path.join(V, "tools", "checks.json")))
man = {
    "version": 1,
    "setup_cmd": "./check --build",
    "hooks": {
        "guard": "verifsim-overlay",
        "enable": "no source of /repo is edited: every check runs tools/instrument on /repo's working tree and compiles the result with `go1.26.8 test -c -overlay <scratch>/overlay.json` (rewritten copies of the simulated packages + the virtual packages verifsim/{rt,simsync,simrand,hsync,vfmt,lndhook} + overlay-only constructor files injected into clightning, wallet and lwk from /verif/sim/inject); the glightning dependency is used as a patched copy (three transport hooks) through a `replace` in the generated harness go.mod; without the overlay the tree is byte-identical to what the baseline compiles",
        "baseline_off_cmd": "cd /repo && go test -mod=mod -vet=off -count=1 -timeout 25m ./...",
        "source_commits": [],
        "add_only": True,
    },
    "engines": [{"name": "verifsim", "path": "/verif/check", "serves_properties": [c["property_id"] for c in CHECKS["checks"]],
                 "kind_free_text": "deterministic whole-system simulation with fault injection: instrumented build of the real peerswap packages under testing/synctest + a seeded grant scheduler, simulated net/LN/chains/wallets/disk boundary, rapid-generated and shrunk plans, replay files"}],
    "checks": [],
    "notes": "exit 0 = held on everything explored; 1 = VIOLATION line with replay file; 2 = infrastructure trouble (never a verdict). Known findings: /verif/known_findings.json. See DESIGN.md.",
    "not_applicable": CHECKS["not_applicable"],
}
claimed = {c["property_id"] for c in CHECKS["checks"]} | {n["property_id"] for n in man["not_applicable"]}
for line in open(os.path.join(V, "properties.jsonl")):
    pid = json.loads(line)["id"]
    if pid not in claimed:
        man["not_applicable"].append({"property_id": pid, "reason": "not claimed at this commit: its check is still under construction (see DESIGN.md section 9, build order)"})
for c in CHECKS["checks"]:
    man["checks"].append({
        "property_id": c["property_id"],
        "quick_cmd": "./check %s quick" % c["property_id"],
        "thorough_cmd": "./check %s thorough" % c["property_id"],
        "evidence_file": "/verif/evidence/%s.json" % c["property_id"],
        "replay_cmd_template": "./check %s --replay {path}" % c["property_id"],
        "engine": "verifsim",
        "level_claimed": {"category": c["level"], "text": c["text"], "design_ref": c.get("design_ref", "DESIGN.md §5 " + c["property_id"])},
        "level_note": c["note"],
        "technique": c.get("technique", "deterministic simulation with fault injection (seeded schedule/fault search, oracle over simulated ground truth)"),
    })
json.dump(man, open(os.path.join(V, "MANIFEST.json"), "w"), indent=1)
print("wrote MANIFEST.json with %d checks, %d not applicable" % (len(man["checks"]), len(man["not_applicable"])))
