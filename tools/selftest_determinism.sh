#!/bin/bash
# Determinism self-test: the same plans, run in separate processes at
# GOMAXPROCS 1/4/16, must yield identical canonical event-log hashes.
# usage: tools/selftest_determinism.sh [props...]   (default: a representative set)
set -u
cd "$(dirname "$0")/.."
# RACE=1 tests the race-detector build instead (C19)
if [ -n "${RACE:-}" ]; then B=$(./check --build-for C19 | tail -1); export GORACE="log_path=/dev/null halt_on_error=0"; else B=$(./check --build-for C01 | tail -1); fi
PROPS=${@:-"C13 C06 C07 C09 C16 C21"}
RUNS=${RUNS:-14}
D=$(mktemp -d -p /dev/shm verifsim-det-XXXX)
trap 'rm -rf $D' EXIT
fail=0
for p in $PROPS; do
  for seed in 5 6 7; do
    for g in 1 4 16; do
      ( cd $D && GOMAXPROCS=$g $B -test.run '^TestProp$' -test.timeout 0 -prop $p -mode hashes -runs $RUNS -seed $seed 2>&1 | grep '^HASH' > $D/$p-$seed-$g.txt ) &
    done
  done
  wait
  for seed in 5 6 7; do
    if ! cmp -s $D/$p-$seed-1.txt $D/$p-$seed-4.txt || ! cmp -s $D/$p-$seed-1.txt $D/$p-$seed-16.txt || [ ! -s $D/$p-$seed-1.txt ]; then
      echo "NONDETERMINISTIC $p seed=$seed"; diff $D/$p-$seed-1.txt $D/$p-$seed-16.txt | head -4; fail=1
    fi
  done
  echo "determinism $p: $(cat $D/$p-*-1.txt | wc -l) plans x 3 GOMAXPROCS settings compared"
done
exit $fail
