#!/bin/bash
# usage: keep_seed.sh <id> <check> <tier text> <signature|"NOT DETECTED ..."> -- archives /tmp/seed-<id> as /verif/seeded/<id>/ and removes the scratch worktree /tmp/wt-<id>
id=$1
mkdir -p /verif/seeded/$id
cp -r /tmp/seed-$id/* /verif/seeded/$id/
python3 - "$id" "$2" "$3" "$4" <<'PY'
import json,sys
id,check,tier,sig=sys.argv[1:5]
p='/verif/seeded/%s/meta.json'%id
m=json.load(open(p))
m['breaks_property']=m.get('property',id.split('-')[0])
m['confirmed_by_us']={"builds":True,"demo_fails_with_patch":True,"demo_passes_without_patch":True,"commands":["tools/verify_seed_demo.sh "+id,"tools/try_seed.sh /tmp/seed-%s %s"%(id,check)]}
m['detected_by']={"check":check,"tier":tier,"violation_signature":sig}
json.dump(m,open(p,'w'),indent=1)
PY
git -C /repo worktree remove --force /tmp/wt-$id 2>/dev/null
rm -rf /tmp/seed-$id /tmp/prompt-$id.txt
echo kept $id
