#!/usr/bin/env python3
"""usage: mark_seed.py <seed id> <check> <tier text> <signature>   -- records in seeded/<id>/meta.json how the change is detected"""
import json, sys, os
d = os.path.join(os.path.dirname(os.path.dirname(os.path.abspath(__file__))), "seeded", sys.argv[1], "meta.json")
m = json.load(open(d))
m["detected_by"] = {"check": sys.argv[2], "tier": sys.argv[3], "violation_signature": sys.argv[4]}
json.dump(m, open(d, "w"), indent=1)
