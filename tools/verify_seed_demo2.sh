#!/bin/bash
# usage: verify_seed_demo2.sh <id> [race]  — in /tmp/wt/<id>: demo fails with the patch, passes without
id=$1; wt=/tmp/wt/$id; seed=/verif/seeded/$id
export GOFLAGS=-mod=mod GOPROXY=off GOSUMDB=off
cd $wt || exit 2
place=$(python3 -c "import json;print(json.load(open('$seed/meta.json'))['demo_placement'].split(' ')[0])")
extra=""; [ "${2:-}" = race ] && extra="-race"
git checkout -q -- . ; git clean -fdq
git apply $seed/patch.diff || { echo "PATCH DOES NOT APPLY"; exit 1; }
go build ./... || { echo "BUILD FAILS"; exit 1; }
cp $seed/demo_test.go.txt $place
pkg=./$(dirname $place)/
with=$(go test $extra -vet=off -count=1 -run 'C[0-9][0-9]|Demo' $pkg 2>&1 | tail -1)
git apply -R $seed/patch.diff
without=$(go test $extra -vet=off -count=1 -run 'C[0-9][0-9]|Demo' $pkg 2>&1 | tail -1)
rm -f $place
echo "$id with-patch: $with"
echo "$id without:    $without"
