#!/bin/bash
# re-applies every archived seeded change to /repo (working tree only), runs the quick
# check of its property with the default budget and reports whether it is (still) detected
cd /verif
export GOFLAGS=-mod=mod GOPROXY=off GOSUMDB=off GOTOOLCHAIN=local
for d in seeded/*/; do
  id=$(basename $d); prop=$(jq -r .property $d/meta.json)
  [ -n "${ONLY:-}" ] && [[ ! " $ONLY " =~ " $id " ]] && continue
  if [ -n "$(git -C /repo status --porcelain)" ]; then echo "repo dirty"; exit 2; fi
  if ! git -C /repo apply --check $PWD/$d/patch.diff 2>/dev/null; then echo "$id: PATCH DOES NOT APPLY"; continue; fi
  git -C /repo apply $PWD/$d/patch.diff
  out=$(./check $prop quick 2>&1); rc=$?
  git -C /repo checkout -- . ; git -C /repo clean -fdq
  sigs=$(for f in replays/$prop-*.json; do [ -f $f ] && jq -r .violation.sig $f; done | sort -u | tr '\n' ' ')
  echo "$id: prop=$prop rc=$rc $(echo "$out" | grep -c '^VIOLATION') violation lines; sigs: $sigs" | cut -c1-400
done
