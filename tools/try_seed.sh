#!/bin/bash
# usage: tools/try_seed.sh <seed dir with patch.diff> <prop> [more props]
# applies the change to /repo only while the simulator is built (under a lock), reverts, then runs the quick checks with that binary
set -u
SEED=$(readlink -f $1); shift
cd /verif
for p in "$@"; do
  bin=$( (
    flock 9
    cd /repo || exit 2
    if [ -n "$(git status --porcelain)" ]; then echo "repo dirty" >&2; exit 2; fi
    git apply "$SEED/patch.diff" || { echo "patch does not apply" >&2; exit 2; }
    /verif/check --build-for $p | tail -1
    git -C /repo checkout -- . ; git -C /repo clean -fdq
  ) 9>/tmp/repo.lock )
  case "$bin" in /*sim.test) ;; *) echo "=== $p on $(basename $SEED): build failed: $bin"; continue;; esac
  echo "=== $p on $(basename $SEED)"
  VERIF_USE_BINARY=$bin VERIF_RUNS=${VERIF_RUNS:-40} VERIF_BUDGET=${VERIF_BUDGET:-60} ./check $p ${TIER:-quick} 2>&1 | grep -v "^build" | cut -c1-600 | head -${LINES_MAX:-8}
done
