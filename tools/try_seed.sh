#!/bin/bash
# usage: tools/try_seed.sh <seed dir with patch.diff> <prop> [more props]  -- applies the change to /repo, runs the quick checks, reverts
set -u
SEED=$1; shift
cd /repo || exit 2
if [ -n "$(git status --porcelain)" ]; then echo "repo dirty"; exit 2; fi
git apply "$SEED/patch.diff" || { echo "patch does not apply"; exit 2; }
trap 'git -C /repo checkout -- . ; git -C /repo clean -fdq' EXIT
cd /verif
for p in "$@"; do
  echo "=== $p on $(basename $SEED)"
  VERIF_RUNS=${VERIF_RUNS:-40} VERIF_BUDGET=${VERIF_BUDGET:-60} ./check $p ${TIER:-quick} 2>&1 | grep -v "^build" | cut -c1-400 | head -${LINES_MAX:-8}
done
