#!/bin/bash
# runs the thorough tier of the given properties one after the other (for `vp run --with-repo`: snapshot of /verif against a snapshot of /repo)
export GOFLAGS=-mod=mod GOPROXY=off GOSUMDB=off GOTOOLCHAIN=local
[ -n "${VP_RUN_REPO:-}" ] && export VERIF_REPO=$VP_RUN_REPO
for p in "$@"; do
  out=$(./check $p thorough 2>&1); rc=$?
  echo "== $p rc=$rc :: $(echo "$out" | grep -E '^(check |VIOLATION|INFRA|NOTE)' | tr '\n' '|' | cut -c1-400)"
done
