#!/usr/bin/env python3
"""Prepares the simulator's own sources for a race-detector build.

usage: race_transform.py <dir> [<dir> ...]

For every non-test-independent .go file below the given directories:
  * the import "sync" becomes the race-silent stand-in verifsim/hsync
    (the simulator's bookkeeping locks must not order goroutines of the system
    under test for the detector),
  * every top-level function gets //go:norace (the simulator's and the
    harness's own memory is serialised by the scheduler, not by locks the
    detector can see).
Files of package simsync keep "sync" for their fall-back primitives but get the
norace marks; their RaceAcquire/RaceRelease annotations are the only
happens-before edges a simulated lock contributes.
"""
import os, re, sys

HS = '"github.com/elementsproject/peerswap/verifsim/hsync"'

def transform(path):
    src = open(path).read()
    if "//go:build !race" in src.split("package", 1)[0]:
        return
    base = os.path.basename(path)
    pkg_simsync = re.search(r"^package simsync\b", src, re.M) is not None
    pkg_hsync = re.search(r"^package hsync\b", src, re.M) is not None
    if pkg_hsync or base in ("grant_race.go", "race_on.go"):
        return
    if not pkg_simsync:
        # only the plain import of the standard package
        src = re.sub(r'^(\s*)"sync"\s*$', r"\1sync " + HS, src, flags=re.M)
    # fmt -> vfmt (no sync.Pool; see sim/vfmt)
    if not re.search(r"^package vfmt\b", src, re.M):
        n = 0
        for fn in ("Sprintf", "Errorf", "Sprint", "Fprintf"):
            src, k = re.subn(r"\bfmt\.%s\(" % fn, "vfmt.%s(" % fn, src)
            n += k
        src, k = re.subn(r"\bfmt\.Stringer\b", "vfmt.Stringer", src)
        n += k
        if n:
            if not re.search(r"\bfmt\.", src):
                src = re.sub(r'^(\s*)"fmt"\s*$', "", src, count=1, flags=re.M)
            src = re.sub(r"^(package \w+.*)$", r'\1\nimport vfmt "github.com/elementsproject/peerswap/verifsim/vfmt"', src, count=1, flags=re.M)
    out = []
    lines = src.split("\n")
    for i, ln in enumerate(lines):
        if ln.startswith("func ") and not (i > 0 and lines[i - 1].startswith("//go:norace")):
            out.append("//go:norace")
        out.append(ln)
    open(path, "w").write("\n".join(out))

for root in sys.argv[1:]:
    for dp, dn, fn in os.walk(root):
        for f in fn:
            if f.endswith(".go"):
                transform(os.path.join(dp, f))
