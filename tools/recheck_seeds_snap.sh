#!/bin/bash
# like recheck_seeds.sh, but self-contained for `vp run --with-repo`: works in the current
# directory (a snapshot of /verif) against $VP_RUN_REPO (a snapshot of /repo), never /repo itself
V=$(pwd); R=${VP_RUN_REPO:?needs vp run --with-repo}
export GOFLAGS=-mod=mod GOPROXY=off GOSUMDB=off GOTOOLCHAIN=local VERIF_REPO=$R
for d in seeded/*/; do
  id=$(basename $d); prop=$(jq -r '.detected_by.check // .property' $d/meta.json)
  [ -n "${ONLY:-}" ] && [[ ! " $ONLY " =~ " $id " ]] && continue
  if ! git -C $R apply --check $V/$d/patch.diff 2>/dev/null; then echo "$id: PATCH DOES NOT APPLY"; continue; fi
  git -C $R apply $V/$d/patch.diff
  out=$(./check $prop quick 2>&1); rc=$?
  git -C $R checkout -- . ; git -C $R clean -fdq
  sigs=$(for f in replays/$prop-*.json; do [ -f $f ] && jq -r .violation.sig $f; done | sort -u | tr '\n' ' ')
  echo "$id: check=$prop rc=$rc $(echo "$out" | grep -c '^VIOLATION') violation lines; sigs: $sigs" | cut -c1-300
done
