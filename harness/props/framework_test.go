package props

import (
	"encoding/json"
	"flag"
	"fmt"
	"os"
	"sort"
	"strings"
	"testing"
	"time"

	"pgregory.net/rapid"

	"verifharness/world"
)

// One test binary serves all properties:
//   sim.test -test.run '^TestProp$' -prop C13 -mode search -runs 300 -seed 7 -out w0.json
//   sim.test -test.run '^TestProp$' -prop C13 -mode replay -plan replays/C13-7.json

var (
	fProp   = flag.String("prop", "", "property id")
	fMode   = flag.String("mode", "search", "search | replay | enum")
	fRuns   = flag.Int("runs", 100, "number of plans to explore (search)")
	fSeed   = flag.Uint64("seed", 1, "seed (VERIF_SEED derived)")
	fOut    = flag.String("out", "", "worker result file (json)")
	fPlan   = flag.String("plan", "", "plan / replay file (replay mode)")
	fKnown  = flag.String("known", "", "known findings file")
	fTier   = flag.String("tier", "quick", "quick | thorough")
	fRepDir = flag.String("repdir", "", "directory for replay files")
	fBudget = flag.Duration("budget", 0, "wall-clock budget for search (0 = runs only)")
	fTrace  = flag.Bool("trace", false, "print the event log of a replay")
)

// PropDef describes how one property is explored.
type PropDef struct {
	ID         string
	Gen        func(t *rapid.T, tier string) *world.Plan
	Monitors   func() []world.Monitor
	Nontrivial func(r *world.Result) bool // did the run exercise the oracle on a non-default path?
	// Enum, if set, yields plans of a finite enumeration (fault_enumeration level) derived from a base plan.
	Enum func(base *world.Plan, baseRes *world.Result) []*world.Plan
}

var registry = map[string]*PropDef{}

func register(p *PropDef) { registry[p.ID] = p }

// WorkerOut is what one worker process reports.
type WorkerOut struct {
	Prop        string            `json:"prop"`
	Seed        uint64            `json:"seed"`
	Runs        int               `json:"runs"`
	Nontrivial  int               `json:"nontrivial"`
	Hashes      map[string]bool   `json:"hashes"`    // distinct event-log hashes
	NTHashes    map[string]bool   `json:"nt_hashes"` // ... among non-trivial runs
	SimSeconds  float64           `json:"sim_seconds"`
	Steps       int               `json:"steps"`
	Probes      map[string]int    `json:"probes"`
	States      map[string]bool   `json:"states"`
	Known       map[string]int    `json:"known"` // known-finding signature -> hits
	KnownDetail map[string]string `json:"known_detail"`
	Violation   *world.Violation  `json:"violation,omitempty"`
	ReplayFile  string            `json:"replay_file,omitempty"`
	Infra       []string          `json:"infra,omitempty"`
	Samples     []json.RawMessage `json:"samples"`
	WallS       float64           `json:"wall_s"`
	EnumTotal   int               `json:"enum_total,omitempty"`
	EnumDone    int               `json:"enum_done,omitempty"`
	Ends        map[string]int    `json:"ends"`
}

type knownFile struct {
	Findings []struct {
		Property string `json:"property"`
		Sig      string `json:"sig"`
		What     string `json:"what"`
	} `json:"findings"`
}

func loadKnown(path string) map[string]string {
	out := map[string]string{}
	if path == "" {
		return out
	}
	b, err := os.ReadFile(path)
	if err != nil {
		return out
	}
	var kf knownFile
	if json.Unmarshal(b, &kf) != nil {
		return out
	}
	for _, f := range kf.Findings {
		out[f.Sig] = f.What
	}
	return out
}

// matchKnown: a known signature may end in '*' (prefix match).
func matchKnown(known map[string]string, sig string) (string, bool) {
	if w, ok := known[sig]; ok {
		return sig, ok && w != "\x00"
	}
	for k := range known {
		if strings.HasSuffix(k, "*") && strings.HasPrefix(sig, strings.TrimSuffix(k, "*")) {
			return k, true
		}
		// one inner '*': fixed prefix and fixed suffix
		if i := strings.Index(k, "*"); i >= 0 && i < len(k)-1 && strings.Count(k, "*") == 1 {
			pre, suf := k[:i], k[i+1:]
			if len(sig) >= len(pre)+len(suf) && strings.HasPrefix(sig, pre) && strings.HasSuffix(sig, suf) {
				return k, true
			}
		}
	}
	return "", false
}

type replayDoc struct {
	Prop      string           `json:"prop"`
	Sig       string           `json:"sig"`
	Detail    string           `json:"detail"`
	Seed      uint64           `json:"seed"`
	LogHash   string           `json:"log_hash"`
	Plan      *world.Plan      `json:"plan"`
	Trace     []string         `json:"trace"`
	Violation *world.Violation `json:"violation"`
}

func newOut(prop string) *WorkerOut {
	return &WorkerOut{Prop: prop, Seed: *fSeed, Hashes: map[string]bool{}, NTHashes: map[string]bool{}, Probes: map[string]int{}, States: map[string]bool{}, Known: map[string]int{}, KnownDetail: map[string]string{}, Ends: map[string]int{}}
}

func (o *WorkerOut) absorb(def *PropDef, p *world.Plan, r *world.Result) {
	o.Runs++
	o.Hashes[r.LogHash] = true
	nt := def.Nontrivial == nil || def.Nontrivial(r)
	if nt {
		o.Nontrivial++
		o.NTHashes[r.LogHash] = true
	}
	o.SimSeconds += r.SimTime.Seconds()
	o.Steps += r.Steps
	for k, v := range r.Probes {
		o.Probes[k] += v
	}
	for _, s := range r.States {
		o.States[s] = true
	}
	o.Ends[r.End]++
	o.Infra = append(o.Infra, r.Infra...)
	if len(o.Samples) < 3 && nt {
		sm := map[string]interface{}{"plan": p, "end": r.End, "steps": r.Steps, "sim_time": r.SimTime.String(), "swaps": r.Swaps, "log_hash": r.LogHash}
		b, _ := json.Marshal(sm)
		o.Samples = append(o.Samples, b)
	}
}

func (o *WorkerOut) write() {
	if *fOut == "" {
		return
	}
	b, _ := json.MarshalIndent(o, "", " ")
	os.WriteFile(*fOut, b, 0o644)
}

// judge splits a run's violations of this property into known and new.
func judge(def *PropDef, known map[string]string, r *world.Result, out *WorkerOut) *world.Violation {
	return judgePlan(def, known, r, out, nil)
}

// judgePlan is judge; with VERIF_SAVE_KNOWN=<dir> the first plan matching each known
// finding is written there as a replay file (used to refresh findings/*.json).
func judgePlan(def *PropDef, known map[string]string, r *world.Result, out *WorkerOut, plan *world.Plan) *world.Violation {
	var fresh *world.Violation
	if dir := os.Getenv("VERIF_SAVE_KNOWN"); dir != "" && plan != nil {
		for i := range r.Violations {
			v := r.Violations[i]
			if k, ok := matchKnown(known, v.Sig); ok && v.Prop == def.ID && out.Known[k] == 0 {
				doc := &replayDoc{Prop: def.ID, Sig: v.Sig, Detail: v.Detail, Seed: *fSeed, LogHash: r.LogHash, Plan: plan, Violation: &r.Violations[i]}
				b, _ := json.MarshalIndent(doc, "", " ")
				os.MkdirAll(dir, 0o755)
				os.WriteFile(fmt.Sprintf("%s/known-%s-%d-%d-%d.json", dir, def.ID, *fSeed, len(out.Known), i), b, 0o644)
			}
		}
	}
	for i := range r.Violations {
		v := r.Violations[i]
		if v.Prop != def.ID {
			continue
		}
		if k, ok := matchKnown(known, v.Sig); ok {
			out.Known[k]++
			if out.KnownDetail[k] == "" {
				out.KnownDetail[k] = v.Detail
			}
			continue
		}
		if fresh == nil {
			fresh = &r.Violations[i]
		}
	}
	return fresh
}

func TestProp(t *testing.T) {
	def := registry[*fProp]
	if def == nil {
		var ids []string
		for k := range registry {
			ids = append(ids, k)
		}
		sort.Strings(ids)
		t.Skipf("no such property %q (have %v)", *fProp, ids)
	}
	known := loadKnown(*fKnown)
	start := time.Now()
	out := newOut(def.ID)
	defer func() {
		out.WallS = time.Since(start).Seconds()
		out.write()
	}()
	switch *fMode {
	case "replay":
		p, err := world.LoadPlan(*fPlan)
		if err != nil {
			out.Infra = append(out.Infra, "load plan: "+err.Error())
			t.Fatalf("load plan: %v", err)
		}
		r := world.Run(t, p, def.Monitors)
		out.absorb(def, p, r)
		fmt.Printf("REPLAY prop=%s log_hash=%s steps=%d end=%s\n", def.ID, r.LogHash, r.Steps, r.End)
		if *fTrace {
			for _, l := range r.Log {
				fmt.Println(l)
			}
		}
		if dir := os.Getenv("VERIF_NODELOGS"); dir != "" {
			// development aid: the simulated nodes' own log output
			for i, l := range r.NodeLogs {
				os.WriteFile(fmt.Sprintf("%s/node%d.log", dir, i), []byte(strings.Join(l, "\n")), 0o644)
			}
		}
		for _, v := range r.Violations {
			if v.Prop == def.ID {
				fmt.Printf("REPLAY-VIOLATION sig=%s\n  %s\n", v.Sig, v.Detail)
			}
		}
		if v := judge(def, known, r, out); v != nil {
			out.Violation = v
		}
		return
	case "hashes":
		// determinism self-test: print one line per plan with the event-log hash
		g := rapid.Custom(func(rt *rapid.T) *world.Plan { return def.Gen(rt, *fTier) })
		for i := 0; i < *fRuns; i++ {
			p := g.Example(int(*fSeed)*100000 + i)
			r := world.Run(t, p, def.Monitors)
			out.absorb(def, p, r)
			fmt.Printf("HASH %d %s steps=%d end=%s viol=%d infra=%d\n", i, r.LogHash, r.Steps, r.End, len(r.Violations), len(r.Infra))
			if d := os.Getenv("VERIF_DUMPLOGS"); d != "" {
				os.WriteFile(fmt.Sprintf("%s/log_%d.txt", d, i), []byte(strings.Join(r.Log, "\n")), 0o644)
			}
		}
		return
	case "search":
		searchMode(t, def, known, out, start)
	case "enum":
		enumMode(t, def, known, out, start)
	}
}

func searchMode(t *testing.T, def *PropDef, known map[string]string, out *WorkerOut, start time.Time) {
	var pinned string
	var lastFail *replayDoc
	flag.Set("rapid.checks", fmt.Sprint(*fRuns))
	flag.Set("rapid.seed", fmt.Sprint(*fSeed))
	flag.Set("rapid.shrinktime", "60s")
	flag.Set("rapid.nofailfile", "true")
	shrinking := false
	prop := func(rt *rapid.T) {
		p := def.Gen(rt, *fTier)
		if *fBudget > 0 && !shrinking && time.Since(start) > *fBudget {
			return // budget exhausted: remaining iterations are no-ops
		}
		r := world.Run(t, p, def.Monitors)
		if !shrinking {
			out.absorb(def, p, r)
		}
		v := judgePlan(def, known, r, out, p)
		if v == nil {
			return
		}
		if pinned == "" {
			pinned = v.Sig
			shrinking = true
		}
		if v.Sig != pinned {
			// a different failure: do not let minimisation slide onto it
			found := false
			for i := range r.Violations {
				if r.Violations[i].Sig == pinned {
					v = &r.Violations[i]
					found = true
				}
			}
			if !found {
				return
			}
		}
		lastFail = &replayDoc{Prop: def.ID, Sig: v.Sig, Detail: v.Detail, Seed: *fSeed, LogHash: r.LogHash, Plan: p, Trace: r.Log, Violation: v}
		rt.Fatalf("%s", v.Sig)
	}
	// rapid reports failure through a TB; use a sub-test so that this test can go on and write the replay file
	ok := t.Run("search", func(st *testing.T) { rapid.Check(st, prop) })
	if !ok && lastFail != nil {
		out.Violation = lastFail.Violation
		dir := *fRepDir
		if dir == "" {
			dir = "."
		}
		os.MkdirAll(dir, 0o755)
		path := fmt.Sprintf("%s/%s-%d.json", dir, def.ID, *fSeed)
		if len(lastFail.Trace) > 6000 {
			lastFail.Trace = append(lastFail.Trace[:3000], lastFail.Trace[len(lastFail.Trace)-3000:]...)
		}
		b, _ := json.MarshalIndent(lastFail, "", " ")
		os.WriteFile(path, b, 0o644)
		out.ReplayFile = path
	} else if !ok && os.Getenv("VERIF_RACELOG") != "" {
		// race-detector build: package testing fails the test for any report,
		// also for those about the harness's own memory, which are not judged
	} else if !ok {
		out.Infra = append(out.Infra, "rapid failed without a recorded violation (panic in generator or harness)")
	}
}

func enumMode(t *testing.T, def *PropDef, known map[string]string, out *WorkerOut, start time.Time) {
	if def.Enum == nil {
		t.Skip("no enumeration for this property")
	}
	// base plans are drawn like in search mode, each is expanded into its finite family
	flag.Set("rapid.checks", fmt.Sprint(*fRuns))
	flag.Set("rapid.seed", fmt.Sprint(*fSeed))
	flag.Set("rapid.nofailfile", "true")
	var fail *replayDoc
	prop := func(rt *rapid.T) {
		if fail != nil {
			return
		}
		if *fBudget > 0 && time.Since(start) > *fBudget {
			return
		}
		base := def.Gen(rt, "enum-base")
		varyBase(base, int(*fSeed%1000)+7*enumBases)
		enumBases++
		br := world.Run(t, base, def.Monitors)
		out.absorb(def, base, br)
		if v := judge(def, known, br, out); v != nil {
			fail = &replayDoc{Prop: def.ID, Sig: v.Sig, Detail: v.Detail, Seed: *fSeed, LogHash: br.LogHash, Plan: base, Trace: br.Log, Violation: v}
			return
		}
		fam := def.Enum(base, br)
		out.EnumTotal += len(fam)
		for _, p := range fam {
			r := world.Run(t, p, def.Monitors)
			out.absorb(def, p, r)
			out.EnumDone++
			if v := judgePlan(def, known, r, out, p); v != nil {
				fail = &replayDoc{Prop: def.ID, Sig: v.Sig, Detail: v.Detail, Seed: *fSeed, LogHash: r.LogHash, Plan: p, Trace: r.Log, Violation: v}
				return
			}
		}
	}
	t.Run("enum", func(st *testing.T) { rapid.Check(st, prop) })
	if fail != nil {
		out.Violation = fail.Violation
		dir := *fRepDir
		if dir == "" {
			dir = "."
		}
		os.MkdirAll(dir, 0o755)
		path := fmt.Sprintf("%s/%s-%d-enum.json", dir, def.ID, *fSeed)
		if len(fail.Trace) > 6000 {
			fail.Trace = append(fail.Trace[:3000], fail.Trace[len(fail.Trace)-3000:]...)
		}
		b, _ := json.MarshalIndent(fail, "", " ")
		os.WriteFile(path, b, 0o644)
		out.ReplayFile = path
	}
}

var enumBases int

// varyBase walks the base schedules of the single-crash enumeration through swap
// type x payment outcome systematically (the rest of the base stays as drawn):
// worker i of a batch and its j-th base get combination i+7j. Payment outcomes:
// all succeed / the first attempt fails (fee payment of a swap-out, claim
// payment of a swap-in) / the second fails (claim payment of a swap-out) -
// so that the failure paths (cancel, coop close) are crashed at every point too.
func varyBase(p *world.Plan, k int) {
	if k < 0 {
		k = -k
	}
	if len(p.Ops) == 0 || (p.Ops[0].Kind != "swapout" && p.Ops[0].Kind != "swapin") {
		return
	}
	p.Ops[0].Kind = []string{"swapout", "swapin"}[k%2]
	if p.Ops[0].Limit < 50000 {
		p.Ops[0].Limit = 50000 // a base that is refused for its premium limit exercises nothing
	}
	switch (k / 2) % 3 {
	case 0:
		p.LN = []world.LNFault{{Idx: 1, Kind: "fail"}}
	case 1:
		p.LN = nil
	case 2:
		p.LN = []world.LNFault{{Idx: 2, Kind: "fail"}}
	}
}
