package props

import (
	"pgregory.net/rapid"

	"verifharness/world"
)

// advMakerPlan: node 1 is a hostile maker, node 0 the real taker.
func advMakerPlan(t *rapid.T, chains []string, deviate bool) *world.Plan {
	p := genPlan(t, genOpts{chains: chains, types: []string{"swapout"}, sched: true, maxNet: 1, maxCrashes: 1, reorgs: true, duration: []int{300, 900},
		restartMs: []int{500, 5000, 60000}})
	p.Scn.Kind = [2]string{"real", "adv"}
	chain := p.Ops[0].Chain
	amount := p.Ops[0].Amount
	cfg := &world.AdvCfg{Role: "maker", Chain: chain, Amount: amount}
	if rapid.Bool().Draw(t, "advinit") {
		// swap-in initiated by the hostile maker
		cfg.Initiate = true
		cfg.Limit = pick(t, "advlimit", []int64{0, 1000, 100000})
		p.Ops = nil
	} else {
		p.Ops[0].Node = 0
		cfg.Premium = pick(t, "advpremium", []int64{0, 0, 100, 2000, -50})
		p.Ops[0].Limit = 50000
	}
	cfg.Colon = rapid.Bool().Draw(t, "advcolon")
	cfg.ConfirmNow = pick(t, "confirmnow", []int{0, 0, 1, 2, 3, 4})
	cfg.AnnounceDelayMs = pick(t, "anndelay", []int{0, 0, 5000, 120000})
	cfg.AnnounceFirst = rapid.IntRange(0, 4).Draw(t, "annfirst") == 0
	cfg.Reannounce = rapid.IntRange(0, 2).Draw(t, "reann")
	if deviate {
		n := rapid.IntRange(0, 2).Draw(t, "ndev")
		for i := 0; i < n; i++ {
			switch rapid.IntRange(0, 13).Draw(t, "dev") {
			case 0:
				cfg.Open.AmountDelta = pick(t, "amtdelta", []int64{-1, 1, -1000, 100000})
			case 1:
				cfg.Open.Asset = pick(t, "asset", []string{"other", "forged"})
			case 2:
				cfg.Open.Explicit = true
			case 3:
				cfg.Open.BlindKey = pick(t, "blind", []string{"wrong", "none"})
			case 4:
				cfg.Open.Keys = pick(t, "keys", []string{"swapped", "othertaker", "othermaker"})
			case 5:
				cfg.Open.Hash = "other"
			case 6:
				cfg.Open.CSVDelta = pick(t, "csvd", []int{-1, 1, -500, -1007})
			case 7:
				cfg.Open.Index = rapid.IntRange(0, 2).Draw(t, "idx")
				cfg.Open.AnnounceDelta = pick(t, "anndelta", []int{0, 1, -1})
			case 8:
				cfg.Open.Decoy = pick(t, "decoy", []string{"sameamount", "samescript"})
			case 9:
				cfg.Open.Broadcast = pick(t, "bc", []string{"none", "hold"})
			case 10:
				cfg.Inv.AmountDeltaMsat = pick(t, "invamt", []int64{-1, 1, 1000, -1000})
			case 11:
				cfg.Inv.Hash = "other"
			case 12:
				cfg.Inv.CLTV = pick(t, "invcltv", []int{-1, 1, 28, 29, 30, 40, 100, 503, 504, 505, 600})
			case 13:
				cfg.Open.WrongTxid = true
			}
		}
	}
	p.AdvCfg = cfg
	return p
}

func init() {
	register(&PropDef{
		ID: "C01",
		Gen: func(t *rapid.T, tier string) *world.Plan {
			return advMakerPlan(t, nil, rapid.IntRange(0, 4).Draw(t, "honest") != 0)
		},
		Monitors: world.MonitorsFor("C01"),
		Nontrivial: func(r *world.Result) bool {
			return probe(r, "adv:invalid-opening") || probe(r, "C01:claim-payment-checked") || probe(r, "adv:valid-opening")
		},
	})
	register(&PropDef{
		ID: "C05",
		Gen: func(t *rapid.T, tier string) *world.Plan {
			p := advMakerPlan(t, []string{"btc"}, false)
			cfg := p.AdvCfg
			cfg.Inv.CLTV = pick(t, "cltv", []int{-1, 1, 144, 400, 490, 500, 503, 504})
			cfg.ConfirmNow = pick(t, "confirm", []int{0, 3, 3, 6})
			cfg.AnnounceDelayMs = pick(t, "delay", []int{0, 1000, 100000})
			// the taker is slow: chain bursts pass while it waits / is down
			n := rapid.IntRange(0, 3).Draw(t, "nbursts")
			for i := 0; i < n; i++ {
				p.Chain = append(p.Chain, world.ChainEv{AtMs: rapid.IntRange(2500, 250000).Draw(t, "burstat"), Chain: "btc", Kind: "mine", N: pick(t, "burst", []int{50, 200, 480, 499, 500, 503})})
			}
			p.Scn.Flavor[0] = pick(t, "flv", []string{"cln", "lnd"})
			return p
		},
		Monitors:   world.MonitorsFor("C05"),
		Nontrivial: func(r *world.Result) bool { return probe(r, "C05:btc-claim-payment-checked") },
	})
	register(&PropDef{
		ID: "C04",
		Gen: func(t *rapid.T, tier string) *world.Plan {
			var p *world.Plan
			if rapid.Bool().Draw(t, "adv") {
				p = advMakerPlan(t, []string{"lbtc"}, false)
				p.AdvCfg.Inv.CLTV = pick(t, "cltv", []int{-1, 1, 20, 28, 29, 30, 31, 40})
			} else {
				p = genPlan(t, genOpts{chains: []string{"lbtc"}, sched: true, maxCrashes: 2, maxLN: 2, maxFaults: 2, restartMs: []int{500, 60000, 700000},
					sites: []string{"lbtc.rpc.height", "ln.pay", "store.update"}, faultKinds: []string{"err", "stale", "errafter"}})
			}
			p.Scn.LBlockEverySec = pick(t, "lblock", []int{2, 5, 20, 60})
			n := rapid.IntRange(0, 3).Draw(t, "nbursts")
			for i := 0; i < n; i++ {
				p.Chain = append(p.Chain, world.ChainEv{AtMs: rapid.IntRange(2100, 200000).Draw(t, "burstat"), Chain: "lbtc", Kind: "mine", N: pick(t, "burst", []int{10, 30, 50, 57, 58, 59, 60, 61})})
			}
			return p
		},
		Monitors:   world.MonitorsFor("C04"),
		Nontrivial: func(r *world.Result) bool { return probe(r, "C04:liquid-payment-attempt-checked") },
	})
	register(&PropDef{
		ID: "C12",
		Gen: func(t *rapid.T, tier string) *world.Plan {
			// hostile responder (maker or taker) with hostile premiums / fee invoices, or two real nodes with odd rates
			mode := rapid.IntRange(0, 2).Draw(t, "mode")
			var p *world.Plan
			switch mode {
			case 0:
				p = advMakerPlan(t, nil, false)
				p.AdvCfg.Initiate = false
				if len(p.Ops) == 0 {
					p.Ops = []world.Op{{AtMs: 2000, Node: 0, Kind: "swapout", Chain: p.AdvCfg.Chain, Amount: p.AdvCfg.Amount}}
				}
				p.Ops[0].Limit = pick(t, "limit", []int64{0, 1000, 50000, -1000})
				p.AdvCfg.Premium = pick(t, "prem", []int64{0, 1, 100, 1000, 5000, 50000, -1, -100000, -1000001, 1 << 62, -(1 << 62)})
				p.AdvCfg.FeeSat = pick(t, "fee", []int64{0, 1, 3500, 10000, 10500, 10501, 35000, 1000000})
			case 1:
				// hostile taker answering our swap-in
				p = genPlan(t, genOpts{types: []string{"swapin"}, sched: true, duration: []int{300}})
				p.Scn.Kind = [2]string{"real", "adv"}
				p.Ops[0].Node = 0
				p.Ops[0].Limit = pick(t, "limit", []int64{0, 1000, 50000, -1000})
				p.AdvCfg = &world.AdvCfg{Role: "taker", Chain: p.Ops[0].Chain, Amount: p.Ops[0].Amount, PayClaim: rapid.Bool().Draw(t, "payclaim"),
					Premium: pick(t, "prem", []int64{0, 1, 100, 1000, 5000, 50000, -1, -100000, -1000001, 1 << 62, -(1 << 62)})}
			default:
				p = genPlan(t, genOpts{sched: true, premiums: true, duration: []int{300}})
				for i := 0; i < 2; i++ {
					p.Scn.BtcFeePerKw[i] = pick(t, "feekw", []int64{253, 2500, 25000})
					p.Scn.LiquidFeeRate[i] = pick(t, "lfee", []int64{100, 1000, 10000})
				}
			}
			return p
		},
		Monitors:   world.MonitorsFor("C12"),
		Nontrivial: func(r *world.Result) bool { return probe(r, "C12:") },
	})
	spendKinds := []string{"preimage", "wrong-preimage", "short-preimage", "long-preimage", "empty-preimage", "preimage-othersig", "coop-taker-only", "coop-taker-twice", "csv-taker", "csv-other", "csv-empty", "csv-one", "nosig-preimage", "script-only", "taker-sig-as-maker"}
	register(&PropDef{
		ID: "C02",
		Gen: func(t *rapid.T, tier string) *world.Plan {
			// hostile taker against a real maker's bitcoin output
			p := genPlan(t, genOpts{chains: []string{"btc"}, types: []string{"swapin"}, sched: true, layouts: true, duration: []int{600}})
			p.Scn.Kind = [2]string{"real", "adv"}
			p.Ops[0].Node = 0
			p.Ops[0].Limit = 50000
			cfg := &world.AdvCfg{Role: "taker", Chain: "btc", Amount: p.Ops[0].Amount, PayClaim: rapid.Bool().Draw(t, "payclaim")}
			n := rapid.IntRange(2, 8).Draw(t, "nspends")
			for i := 0; i < n; i++ {
				cfg.Spends = append(cfg.Spends, world.SpendKnob{AtMs: rapid.IntRange(10000, 500000).Draw(t, "spendat"), Witness: pick(t, "wit", spendKinds),
					Sequence: pick(t, "seq", []int64{0, 1, 1007, 1008, 1009, 0xffffffff, 0xfffffffd, 1 << 22, 1<<31 | 1008, 65535}), By: pick(t, "by", []string{"", "", "third"})})
			}
			nb := rapid.IntRange(0, 2).Draw(t, "nbursts")
			for i := 0; i < nb; i++ {
				p.Chain = append(p.Chain, world.ChainEv{AtMs: rapid.IntRange(5000, 400000).Draw(t, "burstat"), Chain: "btc", Kind: "mine", N: pick(t, "burst", []int{1, 500, 1000, 1007, 1010})})
			}
			p.AdvCfg = cfg
			return p
		},
		Monitors:   world.MonitorsFor("C02"),
		Nontrivial: func(r *world.Result) bool { return probe(r, "C02:spend-attempt") },
	})
}

func init() {
	register(&PropDef{
		ID: "C11",
		Gen: func(t *rapid.T, tier string) *world.Plan {
			p := &world.Plan{Seed: rapid.Uint64Range(1, 1<<40).Draw(t, "seed"), Scn: world.DefaultScenario()}
			scn := &p.Scn
			scn.Kind = [2]string{"real", "adv"}
			scn.DurationSec = 400
			scn.Flavor[0] = pick(t, "flavor", []string{"cln", "lnd"})
			scn.LiquidBackend[0] = pick(t, "backend", []string{"elementsd", "lwk"})
			scn.Channels = append(scn.Channels, world.ChannelCfg{Block: 200, Tx: 2, Out: 0, A: 0, B: 2, BalA: 2_000_000_000, BalB: 2_000_000_000})
			scn.Channels[0].BalA = pick(t, "bala", []uint64{5_000_000_000, 300_000_000, 50_000_000})
			scn.Channels[0].BalB = pick(t, "balb", []uint64{5_000_000_000, 300_000_000, 50_000_000})
			scn.AcceptAll[0] = rapid.Bool().Draw(t, "acceptall")
			if rapid.Bool().Draw(t, "allow1") {
				scn.Allowlist[0] = append(scn.Allowlist[0], 1)
			}
			if rapid.IntRange(0, 3).Draw(t, "allow2") == 0 {
				scn.Allowlist[0] = append(scn.Allowlist[0], 2)
			}
			if rapid.IntRange(0, 4).Draw(t, "susp") == 0 {
				scn.Suspicious[0] = append(scn.Suspicious[0], rapid.IntRange(1, 2).Draw(t, "suspwho"))
			}
			scn.MinSwapMsat[0] = pick(t, "min", []uint64{100_000_000, 1_000_000, 500_000_000})
			scn.SwapsAllowed[0] = rapid.IntRange(0, 5).Draw(t, "enabled") != 0
			scn.BitcoinOn[0] = rapid.IntRange(0, 5).Draw(t, "btcon") != 0
			scn.LiquidOn[0] = rapid.IntRange(0, 5).Draw(t, "lon") != 0
			if !scn.BitcoinOn[0] && !scn.LiquidOn[0] {
				scn.BitcoinOn[0] = true
			}
			scn.WalletSat[0] = pick(t, "wallet", []uint64{50_000_000, 600_000, 100_000})
			if rapid.Bool().Draw(t, "rates") {
				scn.PremiumPPM[0] = []int64{pick(t, "r1", []int64{0, 1000, -500, 20000}), pick(t, "r2", []int64{0, 2000, -500, 20000}), pick(t, "r3", []int64{0, 1000, 20000}), pick(t, "r4", []int64{0, 1000, 20000})}
			}
			cfg := &world.AdvCfg{Role: "taker", Chain: "btc"}
			n := rapid.IntRange(2, 6).Draw(t, "nreq")
			at := 2000
			for i := 0; i < n; i++ {
				at += pick(t, "gap", []int{3000, 10000})
				rk := world.ReqKnob{AtMs: at, Type: pick(t, "rtype", []string{"in", "out"}), Chain: pick(t, "rchain", []string{"btc", "lbtc"}),
					Amount: pick(t, "ramount", []uint64{0, 999, 100_000, 250_000, 400_000, 1_000_000, 10_000_000, 1_000_000_000_000}),
					Version: pick(t, "rver", []int{7, 7, 7, 7, 6, 8, 0}), Limit: pick(t, "rlimit", []int64{100000, 100000, 0, -1, 500, 1 << 62}),
					Net: pick(t, "rnet", []string{"", "", "", "", "othernet", "otherasset", "both", "none"}), Pubkey: pick(t, "rpub", []string{"", "", "", "short", "empty"}),
					From: pick(t, "rfrom", []int{0, 0, 0, 2})}
				switch rapid.IntRange(0, 7).Draw(t, "rscid") {
				case 0:
					rk.Scid = "100:1:0"
				case 1:
					rk.Scid = "999x9x9"
				case 2:
					rk.Scid = "200x2x0"
				}
				if rk.From == 2 && rk.Scid == "" && rapid.Bool().Draw(t, "thirdown") {
					rk.Scid = "200x2x0"
				}
				cfg.Requests = append(cfg.Requests, rk)
			}
			p.AdvCfg = cfg
			np := rapid.IntRange(0, 2).Draw(t, "npol")
			for i := 0; i < np; i++ {
				p.Ops = append(p.Ops, world.Op{AtMs: rapid.IntRange(1000, at).Draw(t, "polat"), Node: 0, Kind: pick(t, "polkind", []string{"policy-allow", "policy-unallow", "policy-suspect", "policy-unsuspect", "policy-disable", "policy-enable"}), Peer: rapid.IntRange(1, 2).Draw(t, "polpeer"), Arg: "peer"})
			}
			if rapid.Bool().Draw(t, "sched") {
				p.SchedSeed = rapid.Uint64Range(1, 1<<32).Draw(t, "schedseed")
				p.SchedRate = 100
			}
			return p
		},
		Monitors:   world.MonitorsFor("C11"),
		Nontrivial: func(r *world.Result) bool { return r.Probes["C11:request-judged"] >= 2 },
	})
}
