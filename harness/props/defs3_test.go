package props

import (
	"pgregory.net/rapid"

	"verifharness/world"
)

// advMakerPlan: node 1 is a hostile maker, node 0 the real taker.
func advMakerPlan(t *rapid.T, chains []string, deviate bool) *world.Plan {
	// the real taker runs its real Lightning adapter (tier 2 / 3) in 60% of the plans: what it
	// decodes, validates and pays is then what the adapter makes of the hostile maker's invoices
	p := genPlan(t, genOpts{chains: chains, types: []string{"swapout"}, sched: true, maxNet: 1, maxCrashes: 1, reorgs: true, duration: []int{300, 900},
		restartMs: []int{500, 5000, 60000}, adapters: 60, clnAdapters: 60})
	p.Scn.Kind = [2]string{"real", "adv"}
	chain := p.Ops[0].Chain
	amount := p.Ops[0].Amount
	cfg := &world.AdvCfg{Role: "maker", Chain: chain, Amount: amount}
	if rapid.Bool().Draw(t, "advinit") {
		// swap-in initiated by the hostile maker
		cfg.Initiate = true
		cfg.Limit = pick(t, "advlimit", []int64{0, 1000, 100000})
		p.Ops = nil
	} else {
		p.Ops[0].Node = 0
		cfg.Premium = pick(t, "advpremium", []int64{0, 0, 100, 2000, -50})
		p.Ops[0].Limit = 50000
	}
	cfg.Colon = rapid.Bool().Draw(t, "advcolon")
	cfg.ConfirmNow = pick(t, "confirmnow", []int{0, 0, 1, 2, 3, 4})
	cfg.AnnounceDelayMs = pick(t, "anndelay", []int{0, 0, 5000, 120000})
	cfg.AnnounceFirst = rapid.IntRange(0, 4).Draw(t, "annfirst") == 0
	cfg.Reannounce = rapid.IntRange(0, 2).Draw(t, "reann")
	if deviate {
		n := rapid.IntRange(0, 2).Draw(t, "ndev")
		for i := 0; i < n; i++ {
			switch rapid.IntRange(0, 15).Draw(t, "dev") {
			case 14:
				// the negotiated amount goes to another script, the swap script gets dust
				cfg.Open.Decoy = "sameamount"
				cfg.Open.AmountDelta = -int64(amount) + pick(t, "dust", []int64{546, 1000, 1})
			case 15:
				// swap script twice: dust first, and the "real" one with a wrong amount
				cfg.Open.Decoy = "samescript"
				cfg.Open.AmountDelta = pick(t, "amtdelta2", []int64{-1, 1, -1000})
			case 0:
				cfg.Open.AmountDelta = pick(t, "amtdelta", []int64{-1, 1, -1000, 100000})
			case 1:
				cfg.Open.Asset = pick(t, "asset", []string{"other", "forged"})
			case 2:
				cfg.Open.Explicit = true
			case 3:
				cfg.Open.BlindKey = pick(t, "blind", []string{"wrong", "none"})
			case 4:
				cfg.Open.Keys = pick(t, "keys", []string{"swapped", "othertaker", "othermaker"})
			case 5:
				cfg.Open.Hash = "other"
			case 6:
				cfg.Open.CSVDelta = pick(t, "csvd", []int{-1, 1, -500, -1007})
			case 7:
				cfg.Open.Index = rapid.IntRange(0, 2).Draw(t, "idx")
				cfg.Open.AnnounceDelta = pick(t, "anndelta", []int{0, 1, -1})
			case 8:
				cfg.Open.Decoy = pick(t, "decoy", []string{"sameamount", "samescript"})
			case 9:
				cfg.Open.Broadcast = pick(t, "bc", []string{"none", "hold"})
			case 10:
				cfg.Inv.AmountDeltaMsat = pick(t, "invamt", []int64{-1, 1, 1, 500, 999, 1000, -1000})
			case 11:
				cfg.Inv.Hash = "other"
			case 12:
				cfg.Inv.CLTV = pick(t, "invcltv", []int{-1, 1, 28, 29, 30, 40, 100, 503, 504, 505, 600})
			case 13:
				cfg.Open.WrongTxid = true
			}
		}
	}
	p.AdvCfg = cfg
	return p
}

func init() {
	register(&PropDef{
		ID: "C01",
		Gen: func(t *rapid.T, tier string) *world.Plan {
			if rapid.IntRange(0, 5).Draw(t, "down-during-payment") == 0 {
				// focused: a correct opening is confirmed, the taker's first claim payment is in
				// flight (and will fail later) when the taker stops; while it is down the chain
				// reorganises deeper than the confirmation requirement and the opening returns to
				// the mempool; the restarted taker must look at the chain again before paying
				p := advMakerPlan(t, nil, false)
				p.Crashes, p.Net, p.Chain = nil, nil, nil
				cfg := p.AdvCfg
				need := 3
				if cfg.Chain == "lbtc" {
					need = 2
				}
				cfg.ConfirmNow = need + rapid.IntRange(0, 1).Draw(t, "extraconf")
				cfg.AnnounceDelayMs, cfg.AnnounceFirst, cfg.Reannounce = 0, false, 0
				p.Scn.BlockEverySec = pick(t, "blockevery2", []int{20, 60})
				if cfg.Chain == "lbtc" {
					p.Scn.LBlockEverySec = p.Scn.BlockEverySec
				}
				p.Scn.LNLatencyMs = 200
				p.Scn.DurationSec = 600
				first := 1
				if len(p.Ops) > 0 {
					first = 2 // swap-out: attempt 1 is the fee payment
				}
				p.LN = []world.LNFault{{Idx: first, Kind: "fail", DelayMs: pick(t, "faildelay", []int{15000, 30000})}}
				crashAt := pick(t, "crashat2", []int{4000, 6000, 9000, 12000})
				p.Ops = append(p.Ops, world.Op{AtMs: crashAt, Node: 0, Kind: "crash", N: int64(pick(t, "down", []int{40000, 70000}))})
				p.Chain = append(p.Chain, world.ChainEv{AtMs: crashAt + 2000, Chain: cfg.Chain, Kind: "reorg-deep-ifdown", N: cfg.ConfirmNow + rapid.IntRange(0, 2).Draw(t, "deeper"), Node: 0})
				return p
			}
			if rapid.IntRange(0, 5).Draw(t, "invoice-only") == 0 {
				// focused: a correct, confirmed opening; only the claim invoice deviates (amount off by
				// less than a satoshi up to a whole one, another hash, odd CLTV). What the taker's
				// Lightning adapter makes of such an invoice decides.
				p := advMakerPlan(t, nil, false)
				switch rapid.IntRange(0, 3).Draw(t, "invdev") {
				case 0, 1:
					p.AdvCfg.Inv.AmountDeltaMsat = pick(t, "invamt2", []int64{1, 999, 500, -1, -999, 1000, -1000, 1001})
				case 2:
					p.AdvCfg.Inv.Hash = "other"
				case 3:
					p.AdvCfg.Inv.CLTV = pick(t, "invcltv2", []int{1, 29, 30, 100, 503, 504, 505})
				}
				return p
			}
			return advMakerPlan(t, nil, rapid.IntRange(0, 4).Draw(t, "honest") != 0)
		},
		Monitors: world.MonitorsFor("C01"),
		Nontrivial: func(r *world.Result) bool {
			return probe(r, "adv:invalid-opening") || probe(r, "C01:claim-payment-checked") || probe(r, "adv:valid-opening")
		},
	})
	register(&PropDef{
		ID: "C05",
		Gen: func(t *rapid.T, tier string) *world.Plan {
			p := advMakerPlan(t, []string{"btc"}, false)
			cfg := p.AdvCfg
			cfg.Inv.CLTV = pick(t, "cltv", []int{-1, 1, 144, 400, 490, 500, 503, 504})
			cfg.ConfirmNow = pick(t, "confirm", []int{0, 3, 3, 6})
			cfg.AnnounceDelayMs = pick(t, "delay", []int{0, 1000, 100000, 250000})
			// the taker is restarted while it waits for the announcement
			if rapid.Bool().Draw(t, "restartwhilewaiting") {
				p.Ops = append(p.Ops, world.Op{AtMs: pick(t, "crashat", []int{3000, 20000, 60000, 120000}), Node: 0, Kind: "crash", N: int64(pick(t, "crestart", []int{500, 5000}))})
			}
			p.Scn.DurationSec = 900
			// the taker is slow: chain bursts pass while it waits / is down
			n := rapid.IntRange(0, 3).Draw(t, "nbursts")
			for i := 0; i < n; i++ {
				p.Chain = append(p.Chain, world.ChainEv{AtMs: rapid.IntRange(2500, 250000).Draw(t, "burstat"), Chain: "btc", Kind: "mine", N: pick(t, "burst", []int{50, 200, 480, 499, 500, 503})})
			}
			p.Scn.Flavor[0] = pick(t, "flv", []string{"cln", "lnd"})
			if p.Scn.Adapter[0] != "" {
				p.Scn.Adapter[0] = p.Scn.Flavor[0]
			}
			if rapid.IntRange(0, 2).Draw(t, "hint") == 0 {
				// the claim invoice carries a routing hint (as invoices for unannounced channels do)
				cfg.Inv.Hint = pick(t, "hintkind", []string{"swapchan", "swapchan", "other"})
				cfg.Inv.HintDelta = pick(t, "hintdelta", []uint32{6, 40, 144, 600, 900, 2000})
			}
			return p
		},
		Monitors:   world.MonitorsFor("C05"),
		Nontrivial: func(r *world.Result) bool { return probe(r, "C05:btc-claim-payment-checked") },
	})
	register(&PropDef{
		ID: "C04",
		Gen: func(t *rapid.T, tier string) *world.Plan {
			var p *world.Plan
			if rapid.IntRange(0, 3).Draw(t, "straddle") == 0 {
				// focused: the first claim payment attempts fail shortly before the window
				// closes and blocks keep arriving while the pay loop retries
				p = genPlan(t, genOpts{chains: []string{"lbtc"}, sched: true, duration: []int{300}, backends: []string{"elementsd"}})
				first := 0
				if len(p.Ops) > 0 && p.Ops[0].Kind == "swapout" {
					first = 1 // attempt 0 is the fee payment
				}
				for i, n := 0, rapid.IntRange(1, 4).Draw(t, "failures"); i < n; i++ {
					p.LN = append(p.LN, world.LNFault{Idx: first + i, Kind: pick(t, "lnkind", []string{"fail", "fail", "errpending-fail"})})
				}
				p.Scn.LBlockEverySec = pick(t, "lblock", []int{2, 3, 5, 10})
				p.Chain = append(p.Chain, world.ChainEv{AtMs: rapid.IntRange(2030, 2600).Draw(t, "burstat"), Chain: "lbtc", Kind: "mine", N: rapid.IntRange(48, 59).Draw(t, "burst")})
				return p
			}
			if rapid.Bool().Draw(t, "adv") {
				p = advMakerPlan(t, []string{"lbtc"}, false)
				p.AdvCfg.Inv.CLTV = pick(t, "cltv", []int{-1, 1, 20, 28, 29, 30, 31, 40})
			} else {
				p = genPlan(t, genOpts{chains: []string{"lbtc"}, sched: true, maxCrashes: 2, maxLN: 2, maxFaults: 2, restartMs: []int{500, 60000, 700000},
					sites: []string{"lbtc.rpc.height", "ln.pay", "store.update"}, faultKinds: []string{"err", "stale", "errafter"}})
			}
			if rapid.IntRange(0, 3).Draw(t, "catching-up") == 0 {
				// the taker's liquid back-end is catching up for a while: it reports a tip well
				// below the one the swap was anchored at
				from := pick(t, "cufrom", []int{2500, 8000, 20000, 60000})
				p.Faults = append(p.Faults, world.Fault{Node: rapid.IntRange(0, 1).Draw(t, "cunode"), Site: "lbtc.rpc.height", Kind: "behind", Ms: pick(t, "cuback", []int{3, 100, 5000}),
					FromMs: from, ToMs: from + pick(t, "culen", []int{15000, 60000, 300000})})
				for i := range p.Scn.LiquidBackend {
					p.Scn.LiquidBackend[i] = "elementsd"
				}
			}
			p.Scn.LBlockEverySec = pick(t, "lblock", []int{2, 5, 20, 60})
			n := rapid.IntRange(0, 3).Draw(t, "nbursts")
			for i := 0; i < n; i++ {
				p.Chain = append(p.Chain, world.ChainEv{AtMs: rapid.IntRange(2100, 200000).Draw(t, "burstat"), Chain: "lbtc", Kind: "mine", N: pick(t, "burst", []int{10, 30, 50, 57, 58, 59, 60, 61})})
			}
			return p
		},
		Monitors:   world.MonitorsFor("C04"),
		Nontrivial: func(r *world.Result) bool { return probe(r, "C04:liquid-payment-attempt-checked") },
	})
	register(&PropDef{
		ID: "C12",
		Gen: func(t *rapid.T, tier string) *world.Plan {
			// hostile responder (maker or taker) with hostile premiums / fee invoices, or two real nodes with odd rates
			mode := rapid.IntRange(0, 4).Draw(t, "mode")
			var p *world.Plan
			switch mode {
			case 4:
				// honest pair; the maker's wallet daemon loses the acknowledgement of the opening
				// broadcast or refuses it once: what is locked must stay the agreed amount, once
				p = genPlan(t, genOpts{sched: true, premiums: true, duration: []int{300}, realLWallet: 100, adapters: 80, clnAdapters: 80, layouts: true})
				if len(p.Ops) > 0 {
					op := p.Ops[0]
					maker := op.Node
					if op.Kind == "swapout" {
						maker = 1 - op.Node
					}
					site := "lwallet.open"
					if op.Chain == "btc" {
						site = pick(t, "wtsite", []string{"btcwallet.open", "btcwallet.publish"})
					}
					p.Faults = []world.Fault{{Node: maker, Site: site, Occ: 1, Kind: pick(t, "wtkind", []string{"errafter", "errafter", "reject26"}), N: 1}}
				}
				return p
			case 3:
				// two swaps in a row on one node with its real Lightning adapter: first it funds an
				// opening transaction that costs much more than its flat estimate (a wallet of many
				// small coins) for a swap-in the hostile peer completes; later it asks the same peer
				// for a swap-out and gets a fee invoice above three times the estimate. Whatever the
				// first swap left behind in the node must not move the bound.
				p = genPlan(t, genOpts{chains: []string{"btc"}, types: []string{"swapin"}, sched: true, duration: []int{400}, adapters: 100, clnAdapters: 100})
				p.Scn.Kind = [2]string{"real", "adv"}
				p.Scn.BlockEverySec = 5
				p.Crashes, p.Net, p.Faults, p.LN, p.Silence, p.Chain = nil, nil, nil, nil, nil, nil
				p.Scn.Layout[0].FeeMult = pick(t, "feemult", []int{1, 8, 8, 20})
				p.Ops = []world.Op{{AtMs: 2000, Node: 0, Kind: "swapin", Chain: "btc", Amount: 100_000, Limit: 100000},
					{AtMs: pick(t, "secondat", []int{90000, 150000}), Node: 0, Kind: "swapout", Chain: "btc", Amount: 100_000, Limit: 100000}}
				p.AdvCfg = &world.AdvCfg{Role: "taker", Chain: "btc", Amount: 100_000, PayClaim: true, FeeSat: pick(t, "fee2", []int64{10500, 10501, 14000, 35000, 47000, 3500})}
				return p
			case 0:
				p = advMakerPlan(t, nil, false)
				p.AdvCfg.Initiate = false
				if len(p.Ops) == 0 {
					p.Ops = []world.Op{{AtMs: 2000, Node: 0, Kind: "swapout", Chain: p.AdvCfg.Chain, Amount: p.AdvCfg.Amount}}
				}
				p.Ops[0].Limit = pick(t, "limit", []int64{0, 1000, 50000, -1000})
				p.AdvCfg.Premium = pick(t, "prem", []int64{0, 1, 100, 1000, 5000, 50000, -1, -100000, -1000001, 1 << 62, -(1 << 62)})
				p.AdvCfg.FeeSat = pick(t, "fee", []int64{0, 1, 3500, 10000, 10500, 10501, 35000, 1000000})
				if rapid.IntRange(0, 3).Draw(t, "feeraw") == 0 {
					p.AdvCfg.FeeMsatRaw = pick(t, "feerawv", []uint64{^uint64(0), ^uint64(0) - 500, ^uint64(0) - 998, ^uint64(0) - 1000, 1 << 63, 1<<63 + 1, 10500999, 10501000})
				}
			case 1:
				// hostile taker answering our swap-in
				p = genPlan(t, genOpts{types: []string{"swapin"}, sched: true, duration: []int{300}})
				p.Scn.Kind = [2]string{"real", "adv"}
				p.Ops[0].Node = 0
				p.Ops[0].Limit = pick(t, "limit", []int64{0, 1000, 50000, -1000})
				p.AdvCfg = &world.AdvCfg{Role: "taker", Chain: p.Ops[0].Chain, Amount: p.Ops[0].Amount, PayClaim: rapid.Bool().Draw(t, "payclaim"),
					Premium: pick(t, "prem", []int64{0, 1, 100, 1000, 5000, 50000, -1, -100000, -1000001, 1 << 62, -(1 << 62)})}
			default:
				// (with an occasional lost acknowledgement or refusal at the wallet daemon while the
				// opening is funded and broadcast: what is locked must stay the agreed amount, once)
				p = genPlan(t, genOpts{sched: true, premiums: true, duration: []int{300}, realLWallet: 70, adapters: 60, clnAdapters: 60, layouts: true,
					maxFaults: 1, sites: []string{"lwallet.open", "btcwallet.open", "btcwallet.publish"}, faultKinds: []string{"errafter", "errafter", "reject26", "err"}})
				for i := 0; i < 2; i++ {
					p.Scn.BtcFeePerKw[i] = pick(t, "feekw", []int64{253, 2500, 25000})
					p.Scn.LiquidFeeRate[i] = pick(t, "lfee", []int64{100, 1000, 10000})
				}
			}
			return p
		},
		Monitors:   world.MonitorsFor("C12"),
		Nontrivial: func(r *world.Result) bool { return probe(r, "C12:") },
	})
	spendKinds := []string{"preimage", "wrong-preimage", "short-preimage", "long-preimage", "empty-preimage", "preimage-othersig", "coop-taker-only", "coop-taker-twice", "csv-taker", "csv-other", "csv-empty", "csv-one", "nosig-preimage", "script-only", "taker-sig-as-maker"}
	register(&PropDef{
		ID: "C02",
		Gen: func(t *rapid.T, tier string) *world.Plan {
			if rapid.Bool().Draw(t, "lab") {
				return genScriptLab(t)
			}
			// hostile taker against a real maker's bitcoin output
			p := genPlan(t, genOpts{chains: []string{"btc"}, types: []string{"swapin"}, sched: true, layouts: true, duration: []int{600}})
			p.Scn.Kind = [2]string{"real", "adv"}
			p.Ops[0].Node = 0
			p.Ops[0].Limit = 50000
			cfg := &world.AdvCfg{Role: "taker", Chain: "btc", Amount: p.Ops[0].Amount, PayClaim: rapid.Bool().Draw(t, "payclaim")}
			n := rapid.IntRange(2, 8).Draw(t, "nspends")
			for i := 0; i < n; i++ {
				cfg.Spends = append(cfg.Spends, world.SpendKnob{AtMs: rapid.IntRange(10000, 500000).Draw(t, "spendat"), Witness: pick(t, "wit", spendKinds),
					Sequence: pick(t, "seq", []int64{0, 1, 1007, 1008, 1009, 0xffffffff, 0xfffffffd, 1 << 22, 1<<31 | 1008, 65535}), By: pick(t, "by", []string{"", "", "third"})})
			}
			nb := rapid.IntRange(0, 2).Draw(t, "nbursts")
			for i := 0; i < nb; i++ {
				p.Chain = append(p.Chain, world.ChainEv{AtMs: rapid.IntRange(5000, 400000).Draw(t, "burstat"), Chain: "btc", Kind: "mine", N: pick(t, "burst", []int{1, 500, 1000, 1007, 1010})})
			}
			p.AdvCfg = cfg
			return p
		},
		Monitors:   world.MonitorsFor("C02"),
		Nontrivial: func(r *world.Result) bool { return probe(r, "C02:spend-attempt") },
	})
}

func init() {
	register(&PropDef{
		ID: "C11",
		Gen: func(t *rapid.T, tier string) *world.Plan {
			p := &world.Plan{Seed: rapid.Uint64Range(1, 1<<40).Draw(t, "seed"), Scn: world.DefaultScenario()}
			scn := &p.Scn
			scn.Kind = [2]string{"real", "adv"}
			scn.DurationSec = 400
			scn.Flavor[0] = pick(t, "flavor", []string{"cln", "lnd"})
			scn.LiquidBackend[0] = pick(t, "backend", []string{"elementsd", "lwk"})
			scn.Channels = append(scn.Channels, world.ChannelCfg{Block: 200, Tx: 2, Out: 0, A: 0, B: 2, BalA: 2_000_000_000, BalB: 2_000_000_000})
			scn.Channels[0].BalA = pick(t, "bala", []uint64{5_000_000_000, 300_000_000, 50_000_000})
			scn.Channels[0].BalB = pick(t, "balb", []uint64{5_000_000_000, 300_000_000, 50_000_000})
			scn.AcceptAll[0] = rapid.Bool().Draw(t, "acceptall")
			if rapid.Bool().Draw(t, "allow1") {
				scn.Allowlist[0] = append(scn.Allowlist[0], 1)
			}
			if rapid.IntRange(0, 3).Draw(t, "allow2") == 0 {
				scn.Allowlist[0] = append(scn.Allowlist[0], 2)
			}
			if rapid.IntRange(0, 4).Draw(t, "susp") == 0 {
				scn.Suspicious[0] = append(scn.Suspicious[0], rapid.IntRange(1, 2).Draw(t, "suspwho"))
			}
			scn.MinSwapMsat[0] = pick(t, "min", []uint64{100_000_000, 1_000_000, 500_000_000})
			scn.SwapsAllowed[0] = rapid.IntRange(0, 5).Draw(t, "enabled") != 0
			scn.BitcoinOn[0] = rapid.IntRange(0, 5).Draw(t, "btcon") != 0
			scn.LiquidOn[0] = rapid.IntRange(0, 5).Draw(t, "lon") != 0
			if !scn.BitcoinOn[0] && !scn.LiquidOn[0] {
				scn.BitcoinOn[0] = true
			}
			scn.WalletSat[0] = pick(t, "wallet", []uint64{50_000_000, 50_000_000, 600_000, 100_000, 3_000, 100, 0})
			if rapid.Bool().Draw(t, "rates") {
				scn.PremiumPPM[0] = []int64{pick(t, "r1", []int64{0, 1000, -500, 20000}), pick(t, "r2", []int64{0, 2000, -500, 20000}), pick(t, "r3", []int64{0, 1000, 20000}), pick(t, "r4", []int64{0, 1000, 20000})}
			}
			cfg := &world.AdvCfg{Role: "taker", Chain: "btc"}
			n := rapid.IntRange(2, 6).Draw(t, "nreq")
			at := 2000
			for i := 0; i < n; i++ {
				at += pick(t, "gap", []int{3000, 10000})
				rk := world.ReqKnob{AtMs: at, Type: pick(t, "rtype", []string{"in", "out"}), Chain: pick(t, "rchain", []string{"btc", "lbtc"}),
					Amount: pick(t, "ramount", []uint64{0, 999, 100_000, 250_000, 400_000, 1_000_000, 10_000_000, 1_000_000_000_000}),
					Version: pick(t, "rver", []int{7, 7, 7, 7, 6, 8, 0}), Limit: pick(t, "rlimit", []int64{100000, 100000, 0, -1, 500, 1 << 62}),
					Net: pick(t, "rnet", []string{"", "", "", "", "othernet", "otherasset", "both", "none"}), Pubkey: pick(t, "rpub", []string{"", "", "", "short", "empty"}),
					From: pick(t, "rfrom", []int{0, 0, 0, 2})}
				switch rapid.IntRange(0, 7).Draw(t, "rscid") {
				case 0:
					rk.Scid = "100:1:0"
				case 1:
					rk.Scid = "999x9x9"
				case 2:
					rk.Scid = "200x2x0"
				}
				if rk.From == 2 && rk.Scid == "" && rapid.Bool().Draw(t, "thirdown") {
					rk.Scid = "200x2x0"
				}
				cfg.Requests = append(cfg.Requests, rk)
			}
			if rapid.IntRange(0, 2).Draw(t, "boundary") == 0 {
				// focused: a node that admits swaps, and requests that satisfy every condition except
				// possibly one that is drawn right at its boundary (premium limit around the premium
				// of either direction, amount around the minimum / the channel balance / the wallet)
				scn.SwapsAllowed[0], scn.BitcoinOn[0], scn.LiquidOn[0], scn.AcceptAll[0] = true, true, true, true
				scn.Suspicious[0] = nil
				scn.WalletSat[0] = pick(t, "bwallet", []uint64{50_000_000, 50_000_000, 1_010_000})
				scn.Channels[0].BalA, scn.Channels[0].BalB = 5_000_000_000, pick(t, "bbalb", []uint64{5_000_000_000, 1_000_000_000})
				scn.MinSwapMsat[0] = 100_000_000
				rates := []int64{0, 2000, 0, 1000}
				if len(scn.PremiumPPM[0]) == 4 {
					rates = scn.PremiumPPM[0]
				}
				cfg.Requests = nil
				at = 2000
				for i := 0; i < n; i++ {
					at += 25000 // the previous request's swap is over (cancelled by the scripted peer) by then
					typ, chain := pick(t, "btype", []string{"in", "out", "out"}), pick(t, "bchain", []string{"btc", "lbtc"})
					amount := pick(t, "bamount", []uint64{99_999, 100_000, 250_000, 999_999, 1_000_000, 1_000_001, 5_000_000})
					ri, ro := rates[0], rates[1]
					if chain == "lbtc" {
						ri, ro = rates[2], rates[3]
					}
					pin, pout := int64(amount)*ri/1_000_000, int64(amount)*ro/1_000_000
					own, other := pin, pout
					if typ == "out" {
						own, other = pout, pin
					}
					limit := pick(t, "blimit", []int64{own, own, own - 1, own + 1, other, other - 1, (own + other) / 2, 0, 1 << 40})
					cfg.Requests = append(cfg.Requests, world.ReqKnob{AtMs: at, Type: typ, Chain: chain, Amount: amount, Version: 7, Limit: limit})
				}
				p.AdvCfg = cfg
				return p
			}
			p.AdvCfg = cfg
			np := rapid.IntRange(0, 2).Draw(t, "npol")
			for i := 0; i < np; i++ {
				p.Ops = append(p.Ops, world.Op{AtMs: rapid.IntRange(1000, at).Draw(t, "polat"), Node: 0, Kind: pick(t, "polkind", []string{"policy-allow", "policy-unallow", "policy-suspect", "policy-unsuspect", "policy-disable", "policy-enable"}), Peer: rapid.IntRange(1, 2).Draw(t, "polpeer"), Arg: "peer"})
			}
			if rapid.Bool().Draw(t, "sched") {
				p.SchedSeed = rapid.Uint64Range(1, 1<<32).Draw(t, "schedseed")
				p.SchedRate = 100
			}
			return p
		},
		Monitors:   world.MonitorsFor("C11"),
		Nontrivial: func(r *world.Result) bool { return r.Probes["C11:request-judged"] >= 2 },
	})
}

func init() {
	register(&PropDef{
		ID: "C20",
		Gen: func(t *rapid.T, tier string) *world.Plan {
			p := &world.Plan{Seed: rapid.Uint64Range(1, 1<<40).Draw(t, "seed"), Scn: world.DefaultScenario()}
			scn := &p.Scn
			scn.Component = "watchers"
			scn.Kind = [2]string{"real", "adv"}
			scn.LiquidBackend[0] = pick(t, "backend", []string{"elementsd", "lwk"})
			scn.RpcParkRate = pick(t, "park", []int{0, 200, 1000})
			if rapid.IntRange(0, 3).Draw(t, "lndwatcher") == 0 {
				scn.Adapter[0], scn.Flavor[0] = "lnd", "lnd" // bitcoin registrations go to the lnd adapter's watcher
			}
			scn.BlockEverySec = pick(t, "blockevery", []int{0, 5, 20})
			scn.DurationSec = 400
			n := rapid.IntRange(1, 4).Draw(t, "nwatch")
			for i := 0; i < n; i++ {
				ws := world.WatchSpec{Chain: pick(t, "chain", []string{"btc", "lbtc"}), Kind: pick(t, "kind", []string{"conf", "conf", "csv"}),
					BroadcastMs: pick(t, "bc", []int{-1, 1000, 1000, 5000, 60000}), RegisterMs: pick(t, "reg", []int{2000, 2000, 30000, 120000}),
					StartOffset: pick(t, "start", []int{0, 0, -1, -3, -10, -500, 2}), WrongVout: rapid.IntRange(0, 5).Draw(t, "wv") == 0}
				if ws.Chain == "btc" {
					ws.Window = pick(t, "win", []uint32{504, 504, 6, 3})
					ws.CSV = pick(t, "csv", []uint32{1008, 10, 3})
				} else {
					ws.Window = pick(t, "lwin", []uint32{60, 60, 4, 2})
					ws.CSV = pick(t, "lcsv", []uint32{60, 10080, 5})
				}
				p.Watch = append(p.Watch, ws)
			}
			ne := rapid.IntRange(0, 5).Draw(t, "nev")
			for i := 0; i < ne; i++ {
				p.Chain = append(p.Chain, world.ChainEv{AtMs: rapid.IntRange(500, 300000).Draw(t, "evat"), Chain: pick(t, "evchain", []string{"btc", "lbtc"}),
					Kind: pick(t, "evkind", []string{"mine", "mine", "mine", "reorg", "reorg-delay", "reorg-hold"}), N: pick(t, "evn", []int{1, 1, 2, 3, 5, 8, 60, 520, 1010})})
			}
			if rapid.IntRange(0, 4).Draw(t, "slow-iteration") == 0 {
				// focused: one query of the watcher's back-end takes several block periods (a loaded
				// or catching-up node); block notifications pile up meanwhile and the watched
				// transaction confirms in the newest of those blocks
				scn.BlockEverySec = 5
				ch := pick(t, "sichain", []string{"btc", "btc", "lbtc"})
				scn.LiquidBackend[0] = pick(t, "sibackend", []string{"elementsd", "lwk"})
				k := rapid.IntRange(1, 3).Draw(t, "siblock") // the slow query happens at the k-th block
				slow := pick(t, "sislow", []int{11500, 16500, 17000, 22000})
				p.Watch = append(p.Watch, world.WatchSpec{Chain: ch, Kind: "conf", RegisterMs: 500, BroadcastMs: k*5000 + slow - pick(t, "sibc", []int{1000, 3500, 6000, 8500}),
					StartOffset: 0, Window: pick(t, "siwin", []uint32{504, 60, 8, 6, 5, 4}), CSV: 1008})
				site := ch + pick(t, "sisite", []string{".rpc.gettxout", ".rpc.blockhash", ".rpc.gettxout"})
				if ch == "lbtc" && scn.LiquidBackend[0] == "lwk" {
					site = pick(t, "sisite2", []string{"electrum.history", "electrum.history", "electrum.getrawtx"})
				}
				p.Faults = append(p.Faults, world.Fault{Node: 0, Site: site, Kind: "slow", Ms: slow, FromMs: k*5000 - 900, ToMs: k*5000 + 900})
			}
			if rapid.IntRange(0, 2).Draw(t, "reorg-in-window") == 0 && scn.BlockEverySec > 0 {
				// focused: a reorganisation while a watched transaction has some, but not yet
				// the required number of confirmations
				ch := pick(t, "rwchain", []string{"btc", "btc", "lbtc"})
				bc := pick(t, "rwbc", []int{1000, 30000})
				p.Watch = append(p.Watch, world.WatchSpec{Chain: ch, Kind: "conf", BroadcastMs: bc, RegisterMs: pick(t, "rwreg", []int{500, bc + 500, bc + scn.BlockEverySec*1000 + 300}),
					StartOffset: pick(t, "rwstart", []int{0, 0, -1, -3}), Window: pick(t, "rwwin", []uint32{504, 60, 12}), CSV: 1008})
				period := scn.BlockEverySec * 1000
				firstBlock := (bc/period + 1) * period
				k := rapid.IntRange(0, 2).Draw(t, "rwconfs")
				for i, nre := 0, rapid.IntRange(1, 2).Draw(t, "rwn"); i < nre; i++ {
					p.Chain = append(p.Chain, world.ChainEv{AtMs: firstBlock + k*period + rapid.IntRange(50, period-50).Draw(t, "rwdelta") + i*period, Chain: ch,
						Kind: pick(t, "rwkind", []string{"reorg", "reorg-delay", "reorg-hold", "reorg-hold"}), N: rapid.IntRange(1, 2).Draw(t, "rwdepth")})
				}
			}
			for i := range p.Chain {
				if p.Chain[i].Kind != "mine" {
					if p.Chain[i].Chain == "lbtc" {
						p.Chain[i].N = 1
					} else if p.Chain[i].N > 2 {
						p.Chain[i].N = 2
					}
				}
			}
			nf := rapid.IntRange(0, 2).Draw(t, "nf")
			for i := 0; i < nf; i++ {
				p.Faults = append(p.Faults, world.Fault{Node: 0, Site: pick(t, "fsite", []string{"btc.rpc.height", "btc.rpc.gettxout", "btc.rpc.blockhash", "btc.rpc.getrawtx", "lbtc.rpc.height", "lbtc.rpc.gettxout", "lbtc.rpc.getrawtx", "electrum.history", "electrum.getrawtx"}),
					Occ: rapid.IntRange(1, 30).Draw(t, "focc"), Kind: pick(t, "fkind", []string{"err", "stale", "slow", "slow"}), N: pick(t, "fn", []int{1, 3, 10}), Ms: pick(t, "fms", []int{1500, 6000, 12000, 45000})})
			}
			if rapid.Bool().Draw(t, "sched") {
				p.SchedSeed = rapid.Uint64Range(1, 1<<32).Draw(t, "schedseed")
				p.SchedRate = pick(t, "rate", []int{50, 300})
			}
			return p
		},
		Monitors:   world.MonitorsFor("C20"),
		Nontrivial: func(r *world.Result) bool { return probe(r, "C20:report") },
	})
	pk := func(i int) string { return world.NodePubkey(i) }
	register(&PropDef{
		ID: "C25",
		Gen: func(t *rapid.T, tier string) *world.Plan {
			p := &world.Plan{Seed: rapid.Uint64Range(1, 1<<40).Draw(t, "seed"), Scn: world.DefaultScenario()}
			p.Scn.Component = "policy"
			p.Scn.Kind = [2]string{"real", "adv"}
			p.Scn.DurationSec = 30
			p.Scn.BlockEverySec = 0
			// pre-existing file
			eq := pick(t, "eq", []string{"=", "=", " = ", "= "})
			var lines []string
			nl := rapid.IntRange(0, 6).Draw(t, "nlines")
			for i := 0; i < nl; i++ {
				switch rapid.IntRange(0, 8).Draw(t, "line") {
				case 0, 1:
					lines = append(lines, "allowlisted_peers"+eq+pk(rapid.IntRange(1, 5).Draw(t, "pk")))
				case 2:
					lines = append(lines, "suspicious_peers"+eq+pk(rapid.IntRange(1, 5).Draw(t, "pk")))
				case 3:
					lines = append(lines, "accept_all_peers"+eq+pick(t, "bool", []string{"true", "false", "1", "0"}))
				case 4:
					lines = append(lines, "allow_new_swaps"+eq+pick(t, "bool", []string{"true", "false", "1", "0"}))
				case 5:
					lines = append(lines, "min_swap_amount_msat"+eq+pick(t, "min", []string{"100000000", "1", "5000000000"}))
				case 6:
					lines = append(lines, "# a comment")
				case 7:
					lines = append(lines, "")
				case 8:
					lines = append(lines, "unknown_option"+eq+"whatever")
				}
			}
			content := ""
			for _, l := range lines {
				content += l + "\n"
			}
			style := "canonical"
			if eq != "=" {
				style = "spaced"
			}
			if len(content) > 0 && rapid.IntRange(0, 2).Draw(t, "nonl") == 0 {
				content = content[:len(content)-1]
				if style == "canonical" {
					style = "no-final-newline"
				} else {
					style += "+no-final-newline"
				}
			}
			p.Comp = append(p.Comp, world.CompOp{Kind: "file", S: content, Arg: style})
			no := rapid.IntRange(1, 8).Draw(t, "nops")
			for i := 0; i < no; i++ {
				op := world.CompOp{Kind: pick(t, "op", []string{"policy-allow", "policy-allow", "policy-unallow", "policy-suspect", "policy-unsuspect", "policy-disable", "policy-enable", "policy-reload", "restart", "edit-min", "edit-acceptall", "edit-allow"}), Peer: rapid.IntRange(1, 5).Draw(t, "peer")}
				if op.Kind == "edit-min" {
					op.N = pick(t, "editmin", []int64{1, 100000000, 500000000, 7777})
				}
				if op.Kind == "edit-acceptall" {
					op.N = int64(rapid.IntRange(0, 1).Draw(t, "editaa"))
				}
				if rapid.IntRange(0, 7).Draw(t, "badkey") == 0 {
					op.S = pick(t, "bad", []string{"", "02abc", "zz" + pk(1)[2:], pk(1) + "00", "02" + pk(1)[2:66][:62] + "GG"})
					if op.S == "" {
						op.S = "x"
					}
				}
				p.Comp = append(p.Comp, op)
			}
			return p
		},
		Monitors:   world.MonitorsFor("C25"),
		Nontrivial: func(r *world.Result) bool { return probe(r, "C25:script-completed") },
	})
}

func init() {
	register(&PropDef{
		ID: "C29",
		Gen: func(t *rapid.T, tier string) *world.Plan {
			p := genPlan(t, genOpts{sched: true, maxNet: 2, silence: true, maxLN: 1, duration: []int{400, 900}})
			if rapid.IntRange(0, 2).Draw(t, "peer-moves") == 0 {
				// the counterparty cancels / closes cooperatively at some point of the swap, so that
				// records carrying a peer's cancel or coop_close exist in non-terminal states too
				for i, k := 0, rapid.IntRange(1, 2).Draw(t, "nmoves"); i < k; i++ {
					to := rapid.IntRange(0, 1).Draw(t, "moveto")
					p.Adv = append(p.Adv, world.AdvMove{Kind: "inject", AtMs: pick(t, "moveat", []int{2080, 2200, 2400, 3000, 5000, 9000, 30000, 90000}), Arg: pick(t, "movetpl", []string{"cancel", "cancel", "coop"}), N: int64(to), M: int64(1 - to)})
				}
			}
			// restart(s) with a changed stored version at assorted moments of the swap
			n := rapid.IntRange(1, 3).Draw(t, "nver")
			for i := 0; i < n; i++ {
				p.Ops = append(p.Ops, world.Op{AtMs: pick(t, "verat", []int{500, 1500, 2010, 2100, 2400, 10000, 40000, 100000, 300000}), Node: rapid.IntRange(0, 1).Draw(t, "vernode"), Kind: "crash-setversion",
					Arg: pick(t, "ver", []string{"v0.1", "v0.2", "v9.9", "", world.CurrentDBVersion()}), N: int64(pick(t, "verrestart", []int{500, 5000, 60000}))})
			}
			return p
		},
		Monitors:   world.MonitorsFor("C29"),
		Nontrivial: func(r *world.Result) bool { return probe(r, "C29:startup:stored-other") },
	})
	register(&PropDef{
		ID: "C27",
		Gen: func(t *rapid.T, tier string) *world.Plan {
			p := genPlan(t, genOpts{sched: true, premiums: true, maxCrashes: 1, duration: []int{300, 600}, restartMs: []int{500, 5000}})
			p.Scn.PeerSync = true
			n := rapid.IntRange(0, 5).Draw(t, "nprem")
			for i := 0; i < n; i++ {
				p.Ops = append(p.Ops, world.Op{AtMs: rapid.IntRange(200, 200000).Draw(t, "premat"), Node: rapid.IntRange(0, 1).Draw(t, "premnode"),
					Kind: pick(t, "premkind", []string{"premium-set", "premium-set", "premium-setdefault", "premium-delete"}), Chain: pick(t, "premchain", []string{"btc", "lbtc"}),
					Colon: rapid.Bool().Draw(t, "premout"), Peer: rapid.IntRange(0, 2).Draw(t, "prempeer"), N: pick(t, "premval", []int64{0, 1, 999, 1000, 2000, 10000, 1000000, -1, -1000, -1000000})})
			}
			if rapid.IntRange(0, 2).Draw(t, "pinned-rate") == 0 {
				// focused: a peer-specific rate is set to a value (often the very value the default
				// has at that moment), then the default moves; the peer stays pinned to its own rate
				node := rapid.IntRange(0, 1).Draw(t, "pnode")
				chain, out := pick(t, "pchain", []string{"btc", "lbtc"}), rapid.Bool().Draw(t, "pout")
				idx := map[string]int{"btc": 0, "lbtc": 2}[chain]
				if out {
					idx++
				}
				inForce := []int64{0, 2000, 0, 1000}[idx]
				if r := p.Scn.PremiumPPM[node]; len(r) == 4 {
					inForce = r[idx]
				}
				vals := []int64{0, 1000, 2000, 5000, 10000, -1000}
				at := 1000
				op := func(kind string, n int64) {
					at += pick(t, "pgap", []int{500, 4000, 30000})
					p.Ops = append(p.Ops, world.Op{AtMs: at, Node: node, Kind: kind, Chain: chain, Colon: out, Peer: 1 - node, N: n})
				}
				if rapid.Bool().Draw(t, "pfirstdefault") {
					inForce = pick(t, "pd1", vals)
					op("premium-setdefault", inForce)
				}
				op("premium-set", pick(t, "pv", []int64{inForce, inForce, 5000, 0}))
				op("premium-setdefault", pick(t, "pd2", vals))
				if rapid.IntRange(0, 3).Draw(t, "pdelete") == 0 {
					op("premium-delete", 0)
				}
				typ := "swapin"
				if out {
					typ = "swapout"
				}
				p.Ops = append(p.Ops, world.Op{AtMs: at + pick(t, "pswapat", []int{5000, 60000}), Node: 1 - node, Kind: typ, Chain: chain, Amount: pick(t, "pamount", []uint64{100_000, 1_000_000}), Limit: 1000000})
				return p
			}
			// more swaps later so that changed rates are exercised
			if rapid.Bool().Draw(t, "second") {
				p.Ops = append(p.Ops, world.Op{AtMs: pick(t, "at2", []int{150000, 250000}), Node: rapid.IntRange(0, 1).Draw(t, "node2"), Kind: pick(t, "type2", []string{"swapout", "swapin"}), Chain: pick(t, "chain2", []string{"btc", "lbtc"}), Amount: pick(t, "amount2", []uint64{100_000, 333_333, 1_000_000}), Limit: 1000000})
			}
			return p
		},
		Monitors:   world.MonitorsFor("C27"),
		Nontrivial: func(r *world.Result) bool { return probe(r, "C27:poll-checked") && probe(r, "C27:op:") },
	})
	register(&PropDef{
		ID: "C26",
		Gen: func(t *rapid.T, tier string) *world.Plan {
			// real maker (node 0), hostile taker that lets the CSV run out
			chain := pick(t, "chain", []string{"btc", "lbtc"})
			p := genPlan(t, genOpts{chains: []string{chain}, types: []string{"swapin"}, sched: true, layouts: true, duration: []int{900}})
			p.Scn.Kind = [2]string{"real", "adv"}
			p.Scn.PeerSync = true
			p.Scn.Channels = append(p.Scn.Channels, world.ChannelCfg{Block: 200, Tx: 2, Out: 0, A: 0, B: 2, BalA: 2_000_000_000, BalB: 2_000_000_000})
			p.Ops[0].Node = 0
			p.Ops[0].Limit = 100000
			cfg := &world.AdvCfg{Role: "taker", Chain: chain, Amount: p.Ops[0].Amount, Coop: pick(t, "coop", []string{"", "", "bad"}), CancelAfter: pick(t, "cancel", []string{"", "", "opening"})}
			if rapid.Bool().Draw(t, "advstarts") {
				// swap-out requested by the hostile taker instead
				p.Ops = nil
				cfg.Initiate = true
				cfg.Limit = 1000000
				cfg.PayFee = true
			}
			burst := 1100
			if chain == "lbtc" {
				burst = 10200
			}
			p.Chain = append(p.Chain, world.ChainEv{AtMs: pick(t, "burstat", []int{60000, 120000, 300000}), Chain: chain, Kind: "mine", N: burst})
			late := 400000
			nr := rapid.IntRange(1, 3).Draw(t, "nreq")
			for i := 0; i < nr; i++ {
				cfg.Requests = append(cfg.Requests, world.ReqKnob{AtMs: late + i*20000, Type: pick(t, "rtype", []string{"in", "out"}), Chain: pick(t, "rchain", []string{"btc", "lbtc"}), Amount: 200_000, Version: 7, Limit: 1000000})
			}
			np := rapid.IntRange(1, 3).Draw(t, "npoll")
			for i := 0; i < np; i++ {
				cfg.Polls = append(cfg.Polls, world.PollKnob{AtMs: late + 5000 + i*15000, Request: rapid.Bool().Draw(t, "preq"), Version: 7, Rate: int64(777000 + i)})
			}
			// polls before the refund too, so that a stored capability exists
			cfg.Polls = append(cfg.Polls, world.PollKnob{AtMs: 1000, Request: true, Version: 7, Rate: 111})
			p.Ops = append(p.Ops, world.Op{AtMs: late + 70000, Node: 0, Kind: pick(t, "later", []string{"swapout", "swapin"}), Chain: pick(t, "lchain", []string{"btc", "lbtc"}), Amount: 150_000, Limit: 1000000})
			p.AdvCfg = cfg
			p.Heal = world.HealCfg{}
			return p
		},
		Monitors:   world.MonitorsFor("C26"),
		Nontrivial: func(r *world.Result) bool { return probe(r, "C26:quarantine-checked") },
	})
}

func init() {
	// C10 (replaces the first definition): several initiations from both sides on one
	// channel, both spellings, peers that go quiet so swaps stay active, restarts in between.
	register(&PropDef{
		ID: "C10",
		Gen: func(t *rapid.T, tier string) *world.Plan {
			return genContention(t)
		},
		Monitors:   world.MonitorsFor("C10"),
		Nontrivial: func(r *world.Result) bool { return probe(r, "C10:contention") || probe(r, "C10:two-active") },
	})
}

func init() {
	register(&PropDef{
		ID: "C28",
		Gen: func(t *rapid.T, tier string) *world.Plan {
			p := &world.Plan{Seed: rapid.Uint64Range(1, 1<<40).Draw(t, "seed"), Scn: world.DefaultScenario()}
			scn := &p.Scn
			scn.Component = "peersync"
			scn.PeerSync = true
			scn.Kind = [2]string{"real", "adv"}
			if a := pick(t, "psadapter", []string{"", "", "cln", "lnd"}); a != "" {
				scn.Adapter[0], scn.Flavor[0] = a, a // peer-sync over its own real Lightning adapter
			}
			scn.BlockEverySec = 0
			scn.DurationSec = pick(t, "dur", []int{600, 2400, 5400})
			scn.Channels = append(scn.Channels, world.ChannelCfg{Block: 200, Tx: 2, Out: 0, A: 0, B: 2, BalA: 1, BalB: 1})
			if rapid.IntRange(0, 4).Draw(t, "susp") == 0 {
				scn.Suspicious[0] = append(scn.Suspicious[0], rapid.IntRange(1, 2).Draw(t, "suspwho"))
			}
			cfg := &world.AdvCfg{Role: "taker", Chain: "btc"}
			n := rapid.IntRange(1, 8).Draw(t, "npolls")
			at := 1000
			for i := 0; i < n; i++ {
				// (gaps of 0..3 ms: several messages of one peer in flight together; whatever is
				// stored must be what the last of them said)
				at += pick(t, "gap", []int{500, 5000, 60000, 600000, 1900000, 0, 1, 3})
				cfg.Polls = append(cfg.Polls, world.PollKnob{AtMs: at, Request: rapid.Bool().Draw(t, "req"), Version: pick(t, "ver", []uint64{7, 7, 7, 6, 8, 0}), Rate: int64(1000 + i),
					From: pick(t, "from", []int{0, 0, 2}), Garbage: rapid.IntRange(0, 7).Draw(t, "garbage") == 0})
			}
			p.AdvCfg = cfg
			no := rapid.IntRange(0, 3).Draw(t, "nops")
			for i := 0; i < no; i++ {
				switch rapid.IntRange(0, 2).Draw(t, "opk") {
				case 0:
					p.Ops = append(p.Ops, world.Op{AtMs: rapid.IntRange(2000, scn.DurationSec*1000).Draw(t, "opat"), Node: 0, Kind: "disconnect", Peer: rapid.IntRange(1, 2).Draw(t, "oppeer")})
				case 1:
					p.Ops = append(p.Ops, world.Op{AtMs: rapid.IntRange(2000, scn.DurationSec*1000).Draw(t, "opat"), Node: 0, Kind: "crash", N: int64(pick(t, "restart", []int{500, 5000, 120000}))})
				case 2:
					p.Ops = append(p.Ops, world.Op{AtMs: rapid.IntRange(2000, scn.DurationSec*1000).Draw(t, "opat"), Node: 0, Kind: "connect", Peer: rapid.IntRange(1, 2).Draw(t, "oppeer")})
				}
			}
			// outages of the node's custom-message RPC: the send fails, or the message goes
			// out and only the acknowledgement is lost
			for i, nf := 0, rapid.IntRange(0, 2).Draw(t, "noutage"); i < nf; i++ {
				from := rapid.IntRange(0, scn.DurationSec*1000).Draw(t, "outfrom")
				p.Faults = append(p.Faults, world.Fault{Node: 0, Site: "net.send", Kind: pick(t, "outkind", []string{"err", "errafter", "errafter"}), FromMs: from,
					ToMs: from + pick(t, "outlen", []int{5000, 25000, 90000, 700000})})
			}
			if rapid.Bool().Draw(t, "sched") {
				p.SchedSeed = rapid.Uint64Range(1, 1<<32).Draw(t, "schedseed")
				p.SchedRate = pick(t, "schedrate", []int{100, 400, 900})
			}
			return p
		},
		Monitors:   world.MonitorsFor("C28"),
		Nontrivial: func(r *world.Result) bool { return probe(r, "C28:view-compared") },
	})
}

func init() {
	// C18: real maker with the real RPC / electrum watchers; the CSV matures in one burst and
	// right then the (hostile) taker's cancel or bad coop_close arrives; plus generic mixes.
	register(&PropDef{
		ID: "C18",
		Gen: func(t *rapid.T, tier string) *world.Plan {
			switch rapid.IntRange(0, 5).Draw(t, "generic") {
			case 0:
				p := genPlan(t, genOpts{sched: true, maxNet: 2, maxLN: 1, silence: true, healAlways: true, inject: []string{"cancel", "coop"}, maxInject: 2, maxCrashes: 1})
				p.Heal.Canary = true
				return p
			case 1, 2:
				// notification handling must stay alive: several swaps in one node, slow or held
				// claim payments (the confirmation callback runs while blocks keep arriving),
				// quick blocks, no restart afterwards; the canary registration at the end must be served
				p := genPlan(t, genOpts{sched: true, maxLN: 2, secondOp: true, peerOps: true, reorgs: true, duration: []int{300, 600},
					backends: []string{"elementsd", "elementsd", "lwk"}, maxFaults: 1,
					sites: []string{"btc.rpc.gettxout", "lbtc.rpc.gettxout", "btc.rpc.height", "lbtc.rpc.height", "btc.rpc.getrawtx", "lbtc.rpc.getrawtx", "electrum.history"}})
				p.Scn.BlockEverySec = pick(t, "fastblocks", []int{2, 5, 5, 20})
				p.Scn.LNLatencyMs = pick(t, "slowln", []int{200, 3000, 12000, 30000})
				p.Heal = world.HealCfg{On: true, Restarts: 0, Blocks: pick(t, "healblocks", []int{150, 1200}), Seconds: 300, Canary: true}
				return p
			}
			chain := pick(t, "chain", []string{"btc", "lbtc"})
			p := genPlan(t, genOpts{chains: []string{chain}, types: []string{"swapin"}, sched: true, duration: []int{600}})
			p.Scn.Kind = [2]string{"real", "adv"}
			p.Scn.LiquidBackend[0] = pick(t, "backend", []string{"elementsd", "lwk"})
			p.Ops[0].Node = 0
			p.Ops[0].Limit = 100000
			burstAt := pick(t, "burstat", []int{90000, 150000})
			burst := 1010
			if chain == "lbtc" {
				burst = 10090
			}
			p.Chain = append(p.Chain, world.ChainEv{AtMs: burstAt, Chain: chain, Kind: "mine", N: burst})
			cfg := &world.AdvCfg{Role: "taker", Chain: chain, Amount: p.Ops[0].Amount}
			// the taker's cancel / coop_close lands just around the burst
			delta := pick(t, "delta", []int{-2000, -100, -10, 0, 0, 1, 5, 20, 50, 80, 99, 100, 101, 150, 200, 450, 500, 501, 600, 700, 3000, -1, -5, -20, -50, -500, -1000})
			p.Scn.RpcParkRate = pick(t, "park", []int{0, 300, 1000, 1000})
			p.Adv = append(p.Adv, world.AdvMove{Kind: "inject", AtMs: burstAt + delta, Arg: pick(t, "what", []string{"cancel", "coop", "cancel"}), N: 0, M: 1})
			if rapid.Bool().Draw(t, "slow-backend") {
				// the maker's chain back-end answers slowly around the burst (a loaded node): calls
				// into the watcher and the watcher's own block handling overlap for seconds
				site := "btc.rpc.gettxout"
				if chain == "lbtc" {
					site = "lbtc.rpc.gettxout"
				}
				p.Faults = append(p.Faults, world.Fault{Node: 0, Site: site, Kind: pick(t, "slowkind", []string{"slow", "lag", "lag"}), Ms: pick(t, "slowms", []int{700, 1500, 4000}), FromMs: burstAt - 5000, ToMs: burstAt + 8000})
			}
			if rapid.Bool().Draw(t, "second") {
				p.Adv = append(p.Adv, world.AdvMove{Kind: "inject", AtMs: burstAt + delta + pick(t, "delta2", []int{1, 100, 1000}), Arg: pick(t, "what2", []string{"cancel", "coop"}), N: 0, M: 1})
			}
			if rapid.Bool().Draw(t, "sched2") {
				p.SchedSeed = rapid.Uint64Range(1, 1<<32).Draw(t, "schedseed2")
				p.SchedRate = pick(t, "rate2", []int{100, 400})
			}
			p.AdvCfg = cfg
			p.Heal = world.HealCfg{On: true, Restarts: 0, Blocks: 150, Seconds: 300, Canary: true}
			return p
		},
		Monitors:   world.MonitorsFor("C18"),
		Nontrivial: func(r *world.Result) bool { return probe(r, "inject:") },
	})
}

// genContention: honest pairs whose operators start several swaps on the one channel at
// nearly the same time, with restarts (C10; also used by C21 for the refusals this causes).
func genContention(t *rapid.T) *world.Plan {
	p := genPlan(t, genOpts{sched: true, maxNet: 1, duration: []int{300}, silence: true, restartMs: []int{500, 3000}})
	p.Ops = nil
	n := rapid.IntRange(2, 5).Draw(t, "nops")
	for i := 0; i < n; i++ {
		p.Ops = append(p.Ops, world.Op{AtMs: pick(t, "at", []int{2000, 2000, 2001, 2050, 5000, 20000, 45000, 90000, 150000}), Node: rapid.IntRange(0, 1).Draw(t, "node"),
			Kind: pick(t, "type", []string{"swapout", "swapin"}), Chain: pick(t, "chain", []string{"btc", "lbtc"}), Amount: pick(t, "amount", []uint64{100_000, 250_000}), Limit: 100000,
			Colon: rapid.Bool().Draw(t, "colon")})
	}
	nc := rapid.IntRange(0, 2).Draw(t, "ncrash")
	for i := 0; i < nc; i++ {
		p.Ops = append(p.Ops, world.Op{AtMs: pick(t, "crashat", []int{2500, 4000, 10000, 30000, 60000}), Node: rapid.IntRange(0, 1).Draw(t, "cnode"), Kind: "crash", N: int64(pick(t, "crestart", []int{500, 3000}))})
	}
	return p
}
