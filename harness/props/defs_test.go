package props

import (
	"strings"

	"pgregory.net/rapid"

	"verifharness/world"
)

func probe(r *world.Result, prefix string) bool {
	for k, v := range r.Probes {
		if v > 0 && strings.HasPrefix(k, prefix) {
			return true
		}
	}
	return false
}

// crashEnum: for a base plan and its fault-free run, the family of plans that
// crash each node once at each of its service-call/store-write operations.
func crashEnum(restartMs int) func(base *world.Plan, br *world.Result) []*world.Plan {
	return func(base *world.Plan, br *world.Result) []*world.Plan {
		var out []*world.Plan
		for node := 0; node < 2; node++ {
			if base.Scn.Kind[node] != "real" {
				continue
			}
			for k := 1; k <= br.NodeOps[node]+1; k++ {
				cp := *base
				cp.Crashes = append([]world.Crash(nil), base.Crashes...)
				cp.Crashes = append(cp.Crashes, world.Crash{Node: node, AtOp: k, RestartMs: restartMs})
				out = append(out, &cp)
			}
		}
		return out
	}
}

func init() {
	register(&PropDef{
		ID: "C13",
		Gen: func(t *rapid.T, tier string) *world.Plan {
			o := genOpts{chains: []string{"lbtc"}, maxCrashes: 2, maxFaults: 2, maxNet: 2, sched: true, healProb: 20,
				sites: []string{"store.update", "lbtc.rpc.height", "net.send", "ln.pay", "lwallet.open", "electrum.history"}}
			if tier == "enum-base" {
				o = genOpts{chains: []string{"lbtc"}, duration: []int{300}}
			}
			p := genPlan(t, o)
			if tier != "enum-base" && rapid.IntRange(0, 3).Draw(t, "catching-up") == 0 {
				// a node's liquid back-end is catching up for a while (after its own restart, a
				// re-sync, a fail-over): it reports a tip below the one the swap was anchored at
				from := pick(t, "cufrom", []int{2030, 2500, 8000, 20000})
				p.Faults = append(p.Faults, world.Fault{Node: rapid.IntRange(0, 1).Draw(t, "cunode"), Site: "lbtc.rpc.height", Kind: "behind", Ms: pick(t, "cuback", []int{1, 3, 100}),
					FromMs: from, ToMs: from + pick(t, "culen", []int{15000, 60000, 300000})})
				for i := range p.Scn.LiquidBackend {
					p.Scn.LiquidBackend[i] = "elementsd"
				}
			}
			return p
		},
		Monitors:   world.MonitorsFor("C13"),
		Nontrivial: func(r *world.Result) bool { return probe(r, "C13:pubkey-sent") },
		Enum:       crashEnum(3000),
	})
	register(&PropDef{
		ID: "C06",
		Gen: func(t *rapid.T, tier string) *world.Plan {
			o := genOpts{maxCrashes: 2, maxFaults: 3, maxNet: 2, maxLN: 2, sched: true, healProb: 60, layouts: true,
				sites:     []string{"ln.pay", "store.update", "btcwallet.spend", "lwallet.sendraw", "lwallet.newaddr", "btcwallet.newaddr", "net.send", "btc.rpc.height", "lbtc.rpc.height"},
				restartMs: []int{500, 5000, 60000}}
			if tier == "enum-base" {
				o = genOpts{duration: []int{300}, healAlways: true}
			}
			p := genPlan(t, o)
			if tier != "enum-base" && len(p.Ops) > 0 && rapid.IntRange(0, 3).Draw(t, "claimoutage") == 0 {
				// the taker's claim broadcast keeps failing for a long time after it paid
				// (every timer armed earlier in the swap fires meanwhile)
				op := p.Ops[0]
				taker := op.Node
				if op.Kind == "swapin" {
					taker = 1 - op.Node
				}
				site := "btcwallet.spend"
				if op.Chain == "lbtc" {
					site = "lwallet.sendraw"
				}
				p.Faults = append(p.Faults, world.Fault{Node: taker, Site: site, Kind: "err", ToMs: pick(t, "outage", []int{400_000, 700_000, 900_000})})
				if p.Scn.DurationSec < 1500 {
					p.Scn.DurationSec = 1500
				}
				p.Heal.On = true
			} else if tier != "enum-base" && len(p.Ops) > 0 && rapid.IntRange(0, 3).Draw(t, "lost-result") == 0 {
				// the result of the first claim payment attempt is lost (the call errors, the HTLC
				// settles a few seconds later) and right afterwards something else goes wrong for
				// the pay loop: its chain back-end fails, or the chain jumps past the payment window
				op := p.Ops[0]
				taker, claim := op.Node, 2 // swap-out: attempt 1 is the fee payment
				if op.Kind == "swapin" {
					taker, claim = 1-op.Node, 1
				}
				p.Scn.BlockEverySec, p.Scn.LBlockEverySec = 5, 5
				p.Scn.LNLatencyMs = pick(t, "lrlat", []int{200, 3000})
				p.LN = []world.LNFault{{Idx: claim, Kind: "errpending-settle"}}
				p.Crashes, p.Net, p.Silence, p.Adv = nil, nil, nil, nil
				// the opening has its confirmations after 3 (2) blocks of 5s; the pay loop makes its
				// first attempt one tick (10s) later and the next ones every 10s
				payAt := 5000*3 + 10000
				if op.Chain == "lbtc" {
					payAt = 5000*2 + 10000
				}
				from := payAt + pick(t, "lrlead", []int{1500, 5000, 9500})
				if rapid.Bool().Draw(t, "lr-height") {
					site := "btc.rpc.height"
					if op.Chain == "lbtc" {
						site = pick(t, "lrsite", []string{"lbtc.rpc.height", "lbtc.rpc.height", "electrum.history"})
					}
					p.Faults = []world.Fault{{Node: taker, Site: site, Kind: "err", FromMs: from, ToMs: from + pick(t, "lrlen", []int{15000, 40000, 200000})}}
				} else {
					p.Faults = nil
					p.Chain = []world.ChainEv{{AtMs: from, Chain: op.Chain, Kind: "mine", N: pick(t, "lrburst", []int{70, 520, 600})}} // past the payment window, short of the CSV
				}
				if p.Scn.DurationSec < 600 {
					p.Scn.DurationSec = 600
				}
				p.Heal.On = true
			} else if tier != "enum-base" && len(p.Ops) > 0 && rapid.IntRange(0, 4).Draw(t, "failed-then-held") == 0 {
				// the first claim attempt fails, the pay loop's second attempt is held by the peer (and
				// settles or fails minutes later); the taker restarts while that HTLC is in flight and
				// has to find out from its Lightning node what became of its attempts
				op := p.Ops[0]
				taker, claim := op.Node, 2
				if op.Kind == "swapin" {
					taker, claim = 1-op.Node, 1
				}
				p.Scn.BlockEverySec, p.Scn.LBlockEverySec = 5, 5
				p.Scn.LNLatencyMs = 200
				if rapid.IntRange(0, 9).Draw(t, "fhadapter") < 7 {
					p.Scn.Adapter[taker] = p.Scn.Flavor[taker] // the taker's real Lightning adapter answers "what became of my attempts"
				}
				second := world.LNFault{Idx: claim + 1, Kind: pick(t, "fhkind", []string{"delay", "delay", "hold"}), DelayMs: pick(t, "fhdelay", []int{60000, 150000, 240000})}
				p.LN = []world.LNFault{{Idx: claim, Kind: "fail", DelayMs: pick(t, "fhfail", []int{0, 2000})}, second}
				p.Crashes, p.Net, p.Silence, p.Adv, p.Faults, p.Chain = nil, nil, nil, nil, nil, nil
				payAt := 5000*3 + 10000
				if op.Chain == "lbtc" {
					payAt = 5000*2 + 10000
				}
				p.Ops = append(p.Ops[:1], world.Op{AtMs: op.AtMs + payAt + pick(t, "fhcrash", []int{12000, 15000, 25000, 50000}), Node: taker, Kind: "crash", N: int64(pick(t, "fhdown", []int{500, 5000, 30000}))})
				if p.Scn.DurationSec < 900 {
					p.Scn.DurationSec = 900
				}
				p.Heal.On = true
			}
			return p
		},
		Monitors:   world.MonitorsFor("C06"),
		Nontrivial: func(r *world.Result) bool { return probe(r, "C06:") },
		Enum:       crashEnum(3000),
	})
	register(&PropDef{
		ID: "C07",
		Gen: func(t *rapid.T, tier string) *world.Plan {
			o := genOpts{maxCrashes: 2, maxFaults: 3, maxNet: 2, maxLN: 1, sched: true, healProb: 70, layouts: true, silence: true, csvBurst: 25, realLWallet: 70,
				sites:      []string{"btc.rpc.height", "lbtc.rpc.height", "lwallet.open", "btcwallet.open", "btcwallet.label", "lwallet.label", "store.update", "net.send", "lwallet.sendraw", "btcwallet.spend", "ln.invoice",
					"btc.rpc.gettxout", "lbtc.rpc.gettxout", "btc.rpc.getrawtx", "lbtc.rpc.getrawtx", "btc.rpc.blockhash", "lbtc.rpc.blockhash", "electrum.history", "electrum.getrawtx"},
				faultKinds: []string{"err", "errafter"}, inject: []string{"cancel", "coop"}, maxInject: 1}
			if tier == "enum-base" {
				o = genOpts{duration: []int{300}, healAlways: true, silence: true}
			}
			if tier != "enum-base" && rapid.IntRange(0, 3).Draw(t, "watch-outage") == 0 {
				// focused: the chain back-end of a node is out of order while its swaps register
				// their watches (right after the opening broadcast, on entering the CSV wait, on
				// recovery); the peer goes silent; afterwards the node is left running, not restarted
				o.silenceAlways = true
				o.maxFaults = 1
				o.healAlways = true
				p := genPlan(t, o)
				for i, k := 0, rapid.IntRange(1, 2).Draw(t, "nwo"); i < k; i++ {
					from := pick(t, "wofrom", []int{1500, 2050, 2300, 4000, 20000})
					p.Faults = append(p.Faults, world.Fault{Node: rapid.IntRange(0, 1).Draw(t, "wonode"),
						Site:   pick(t, "wosite", []string{"btc.rpc.gettxout", "lbtc.rpc.gettxout", "btc.rpc.gettxout", "lbtc.rpc.gettxout", "btc.rpc.height", "lbtc.rpc.height", "btc.rpc.getrawtx", "lbtc.rpc.getrawtx", "electrum.history", "electrum.getrawtx"}),
						Kind:   pick(t, "wokind", []string{"err", "err", "empty"}),
						FromMs: from, ToMs: from + pick(t, "wolen", []int{1500, 6000, 30000, 120000})})
				}
				p.Heal.Restarts = pick(t, "worestarts", []int{0, 0, 0, 1})
				p.Adv = nil
				// the taker never pays and is not heard of again after the opening exists: its claim
				// payments fail and its messages (coop_close) are lost
				op := p.Ops[0]
				taker, firstClaim := 1-op.Node, 1
				if op.Kind == "swapout" {
					taker, firstClaim = op.Node, 2 // attempt 1 is the fee payment
				}
				p.Silence = []world.SilenceAt{{Node: taker, After: 1}}
				p.LN = nil
				for i := firstClaim; i < firstClaim+12; i++ {
					p.LN = append(p.LN, world.LNFault{Idx: i, Kind: "fail"})
				}
				return p
			}
			if tier != "enum-base" && rapid.IntRange(0, 5).Draw(t, "refund-outage") == 0 {
				// focused: the taker never pays, the CSV matures, and the maker's wallet daemon is
				// unreachable (transport-level failures, not JSON-RPC errors) for the first refund
				// broadcasts; the maker runs its real wallet code where there is one
				o2 := o
				o2.csvBurst, o2.silenceAlways, o2.maxCrashes, o2.maxFaults, o2.inject = 100, true, 0, 0, nil
				o2.adapters, o2.clnAdapters, o2.realLWallet = 80, 80, 100
				p := genPlan(t, o2)
				if len(p.Ops) == 0 || len(p.Chain) == 0 {
					return p
				}
				op := p.Ops[0]
				maker := op.Node
				if op.Kind == "swapout" {
					maker = 1 - op.Node
				}
				site := "btcwallet.spend"
				if op.Chain == "lbtc" {
					site = "lwallet.sendraw"
				}
				at := p.Chain[len(p.Chain)-1].AtMs
				p.Faults = []world.Fault{{Node: maker, Site: site, Kind: "err", FromMs: at - 1000, ToMs: at + pick(t, "rolen", []int{3000, 15000, 40000})}}
				p.Heal.On = true
				return p
			}
			p := genPlan(t, o)
			if tier != "enum-base" && rapid.Bool().Draw(t, "noinject") {
				p.Adv = nil
			}
			return p
		},
		Monitors: world.MonitorsFor("C07"),
		Nontrivial: func(r *world.Result) bool {
			return probe(r, "layout:") || probe(r, "C07:") || probe(r, "fault:") || probe(r, "crash")
		},
		Enum: crashEnum(3000),
	})
	register(&PropDef{
		ID: "C15",
		Gen: func(t *rapid.T, tier string) *world.Plan {
			o := genOpts{maxCrashes: 3, maxFaults: 1, maxNet: 2, maxLN: 1, sched: true, healProb: 30, restartMs: []int{500, 5000, 60000}}
			if tier == "enum-base" {
				// (the framework varies swap type and payment outcome over the bases: varyBase)
				o = genOpts{duration: []int{300}}
			}
			return genPlan(t, o)
		},
		Monitors:   world.MonitorsFor("C15"),
		Nontrivial: func(r *world.Result) bool { return probe(r, "crash") },
		Enum:       crashEnum(2000),
	})
	register(&PropDef{
		ID: "C16",
		Gen: func(t *rapid.T, tier string) *world.Plan {
			p := genPlan(t, genOpts{maxCrashes: 2, maxFaults: 2, maxNet: 3, maxLN: 1, sched: true, healAlways: true, silence: true, duration: []int{120, 300, 900}})
			if p.Heal.Restarts == 0 {
				// the statement's premise: "the node is restarted from time to time"
				p.Heal.Restarts = 1
			}
			return p
		},
		Monitors: world.MonitorsFor("C16"),
		Nontrivial: func(r *world.Result) bool {
			return probe(r, "net:silenced") || probe(r, "crash") || probe(r, "net:drop")
		},
	})
	register(&PropDef{
		ID: "C17",
		Gen: func(t *rapid.T, tier string) *world.Plan {
			if rapid.IntRange(0, 3).Draw(t, "generic") == 0 {
				return genPlan(t, genOpts{maxCrashes: 2, maxNet: 2, sched: true, silence: true, silenceAlways: true, duration: []int{900, 1500}, restartMs: []int{500, 5000, 60000},
					maxLN: 1})
			}
			return genC17(t)
		},
		Monitors:   world.MonitorsFor("C17"),
		Nontrivial: func(r *world.Result) bool { return probe(r, "C17:") },
	})
	// C10 is defined in defs3_test.go
	register(&PropDef{
		ID: "C09",
		Gen: func(t *rapid.T, tier string) *world.Plan {
			p := genPlan(t, genOpts{maxCrashes: 1, sched: true, duration: []int{300},
				inject: []string{"request-in", "request-out", "agreement-in", "agreement-out", "opening", "cancel", "coop"}, maxInject: 3})
			if rapid.IntRange(0, 2).Draw(t, "twin") == 0 {
				// a third party's request with the same id, on its own channel, arrives within the
				// same instant as the genuine request: both are handled concurrently
				p.Scn.Channels = append(p.Scn.Channels, world.ChannelCfg{Block: 200, Tx: 2, Out: 0, A: 0, B: 2, BalA: 2_000_000_000, BalB: 2_000_000_000},
					world.ChannelCfg{Block: 201, Tx: 2, Out: 0, A: 1, B: 2, BalA: 2_000_000_000, BalB: 2_000_000_000})
				p.Adv = append(p.Adv, world.AdvMove{Kind: "twin", N: pick(t, "twindelay", []int64{0, 0, 0, -1, 1, 5}), Arg: pick(t, "twintype", []string{"", "", "other-type"})})
				for i := range p.Scn.Flavor {
					p.Scn.Flavor[i] = pick(t, "twinflavor", []string{"cln", "cln", "lnd"})
				}
				if p.SchedSeed == 0 {
					p.SchedSeed = rapid.Uint64Range(1, 1<<32).Draw(t, "twinsched")
					p.SchedRate = pick(t, "twinrate", []int{100, 300, 500})
				}
			}
			if rapid.IntRange(0, 4).Draw(t, "dup-request") == 0 && len(p.Ops) > 0 {
				// the request is delivered twice (a redelivery) and the second copy arrives while the
				// first is still being checked against a slow Lightning back-end
				resp := 1 - p.Ops[0].Node
				p.Net = []world.NetFault{{Idx: 1, Kind: "dup"}}
				p.Scn.NetLatencyMs = pick(t, "duplat", []int{10, 50})
				p.Faults = append(p.Faults, world.Fault{Node: resp, Site: pick(t, "dupsite", []string{"ln.receivable", "ln.spendable", "ln.probe", "ln.spendable"}), Kind: "slow", Ms: pick(t, "dupslow", []int{300, 2000}), FromMs: 0, ToMs: 20000})
			}
			return p
		},
		Monitors:   world.MonitorsFor("C09"),
		Nontrivial: func(r *world.Result) bool { return probe(r, "C09:delivered") },
	})
	register(&PropDef{
		ID: "C14",
		Gen: func(t *rapid.T, tier string) *world.Plan {
			return genPlan(t, genOpts{maxCrashes: 1, maxFaults: 3, maxNet: 2, maxLN: 1, sched: true, premiums: true, layouts: true, healProb: 30, silence: true,
				inject: []string{"cancel", "coop", "opening", "agreement-in", "agreement-out", "opening:bad", "coop:bad", "agreement-in:bad", "agreement-out:bad", "opening:bad"}, maxInject: 3})
		},
		Monitors:   world.MonitorsFor("C14"),
		Nontrivial: func(r *world.Result) bool { return r.Probes["C14:record-checked"] > 8 },
	})
	junk := []string{"junk:null", "junk:null-request", "junk:null-opening", "junk:null-coop", "junk:null-agreement", "junk:empty-object", "junk:empty-object-request", "junk:array", "junk:string", "junk:number", "junk:truncated", "junk:short-id", "junk:odd-id", "junk:even-type", "junk:out-of-range", "junk:low-type", "junk:huge", "junk:deep", "junk:binary", "junk:over-limit-cancel", "junk:over-limit-cancel-1", "junk:over-limit-cancel-1023", "junk:over-limit-request"}
	register(&PropDef{
		ID: "C21",
		Gen: func(t *rapid.T, tier string) *world.Plan {
			if rapid.IntRange(0, 3).Draw(t, "contention") == 0 {
				// refusals are wire messages too: requests that meet an active swap on the channel
				return genContention(t)
			}
			return genPlan(t, genOpts{sched: true, premiums: true, duration: []int{300}, inject: junk, maxInject: 3, maxNet: 1})
		},
		Monitors:   world.MonitorsFor("C21"),
		Nontrivial: func(r *world.Result) bool { return r.Probes["C21:send-checked"] > 0 },
	})
	register(&PropDef{
		ID: "C22",
		Gen: func(t *rapid.T, tier string) *world.Plan {
			return genPlan(t, genOpts{sched: true, maxNet: 3, maxLN: 2, maxFaults: 2, silence: true, healProb: 40, inject: []string{"cancel", "coop"}, maxInject: 1, csvBurst: 35,
				sites: []string{"net.send", "ln.pay", "btcwallet.spend", "lwallet.sendraw"}})
		},
		Monitors:   world.MonitorsFor("C22"),
		Nontrivial: func(r *world.Result) bool { return r.Probes["C22:opening-send"] >= 2 },
	})
	register(&PropDef{
		ID: "C23",
		Gen: func(t *rapid.T, tier string) *world.Plan {
			return genPlan(t, genOpts{sched: true, maxNet: 2, maxLN: 2, maxFaults: 2, maxCrashes: 1, silence: true, healProb: 30, premiums: true})
		},
		Monitors:   world.MonitorsFor("C23"),
		Nontrivial: func(r *world.Result) bool { return r.Probes["C23:send-scanned"] >= 3 },
	})
	register(&PropDef{
		ID: "C18-generic-unused",
		Gen: func(t *rapid.T, tier string) *world.Plan {
			return genPlan(t, genOpts{sched: true, maxNet: 2, maxLN: 1, silence: true, healAlways: true, inject: []string{"cancel", "coop"}, maxInject: 2, maxCrashes: 1})
		},
		Monitors:   world.MonitorsFor("C18"),
		Nontrivial: func(r *world.Result) bool { return true },
	})
}
