package props

import (
	"pgregory.net/rapid"

	"verifharness/world"
)

// genC17: histories in which a negotiation wait has to be ended by the node's
// own timeout: the requester never hears an agreement, or the swap-out
// responder's fee invoice is never paid. Restarts of the waiting node are mixed
// in (the statement: "also if it was restarted meanwhile").
func genC17(t *rapid.T) *world.Plan {
	p := genPlan(t, genOpts{maxNet: 1, sched: true, duration: []int{900, 1500}, restartMs: []int{500, 5000, 60000}})
	if len(p.Ops) == 0 {
		return p
	}
	p.Crashes = nil
	p.Silence = nil
	op := &p.Ops[0]
	requester := op.Node
	responder := 1 - requester
	waiting := requester
	switch rapid.IntRange(0, 4).Draw(t, "c17mode") {
	case 0, 1:
		// the responder never answers
		p.Silence = []world.SilenceAt{{Node: responder, After: 0}}
	case 2:
		// swap-out: the initiator vanishes for good once its request is out; the
		// responder's fee invoice expires unpaid
		op.Kind = "swapout"
		p.Ops = append(p.Ops, world.Op{AtMs: op.AtMs + rapid.IntRange(5, 60).Draw(t, "vanish_ms"), Node: requester, Kind: "crash", N: 5_000_000})
		waiting = responder
	case 3:
		// swap-out: the agreement is lost and the initiator is mute; it never
		// pays, and its own cancel never arrives
		op.Kind = "swapout"
		p.Net = append(p.Net, world.NetFault{Idx: 1, Kind: "drop"})
		p.Silence = []world.SilenceAt{{Node: requester, After: 1}}
		waiting = responder
	case 4:
		// the request itself is lost
		p.Net = append(p.Net, world.NetFault{Idx: 0, Kind: "drop"})
	}
	// stray messages: while the node waits, its counterparty sends messages for this swap that
	// the waiting state does not accept (and stays silent otherwise); the wait must still end
	if rapid.IntRange(0, 2).Draw(t, "stray") == 0 {
		wrongAgreement := "agreement-out"
		if op.Kind == "swapout" {
			wrongAgreement = "agreement-in"
		}
		for i, k := 0, rapid.IntRange(1, 2).Draw(t, "nstray"); i < k; i++ {
			p.Adv = append(p.Adv, world.AdvMove{Kind: "inject", AtMs: op.AtMs + pick(t, "strayat", []int{200, 2000, 30000, 200000, 400000}),
				Arg: pick(t, "straytpl", []string{"opening", "coop", wrongAgreement}), N: int64(waiting), M: int64(1 - waiting)})
		}
	}
	// restarts of the waiting node while it waits
	for i, n := 0, rapid.IntRange(0, 2).Draw(t, "restarts"); i < n; i++ {
		at := op.AtMs + rapid.IntRange(1_000, 580_000).Draw(t, "restart_at")
		p.Ops = append(p.Ops, world.Op{AtMs: at, Node: waiting, Kind: "crash", N: int64(pick(t, "down_ms", []int{500, 5000, 60000, 200000}))})
	}
	if p.Scn.DurationSec < 900 {
		p.Scn.DurationSec = 900
	}
	return p
}

// C19: no oracle of its own. The binary is built with the race detector; the
// reports it writes while a plan runs become violations in world.Run
// (world/race.go). The generator's job is to make many things happen at once
// inside one node: two swaps, the peer initiating too, policy and premium
// commands, restarts (recovery racing with incoming messages), chain events.
func init() {
	register(&PropDef{
		ID: "C19",
		Gen: func(t *rapid.T, tier string) *world.Plan {
			p := genPlan(t, genOpts{maxCrashes: 2, maxFaults: 1, maxNet: 2, maxLN: 1, sched: true, healProb: 30, secondOp: true, peerOps: true,
				policyOps: true, premiums: true, reorgs: true, duration: []int{300, 900}, restartMs: []int{500, 5000},
				inject: []string{"cancel", "coop", "request-in", "request-out"}, maxInject: 2})
			if rapid.Bool().Draw(t, "msg-during-recovery") {
				// a restart at a known time with peer messages for the node's swaps
				// landing while it recovers them
				node := rapid.IntRange(0, 1).Draw(t, "rnode")
				at := rapid.IntRange(2_500, 60_000).Draw(t, "rat")
				down := pick(t, "rdown", []int{200, 500, 2000})
				p.Ops = append(p.Ops, world.Op{AtMs: at, Node: node, Kind: "crash", N: int64(down)})
				for i, k := 0, rapid.IntRange(1, 4).Draw(t, "rmsgs"); i < k; i++ {
					p.Adv = append(p.Adv, world.AdvMove{Kind: "inject", AtMs: at + down + rapid.IntRange(0, 300).Draw(t, "rdelta"), N: int64(node), M: int64(1 - node),
						Arg: pick(t, "rtpl", []string{"cancel", "coop", "opening", "agreement-in", "agreement-out"})})
				}
			}
			return p
		},
		Monitors:   world.MonitorsFor("C19"),
		Nontrivial: func(r *world.Result) bool { return r.Msgs > 3 },
	})
}

// genScriptLab: the script laboratory of C02 (world/comp_scriptlab.go). Every
// secret is in the simulator's hands; witnesses are the three specified shapes
// with zero or more mutated, inserted, removed or swapped items, or random
// stacks of up to five items.
func genScriptLab(t *rapid.T) *world.Plan {
	p := &world.Plan{Seed: rapid.Uint64Range(1, 1<<40).Draw(t, "seed"), Scn: world.DefaultScenario()}
	p.Scn.Component = "scriptlab"
	p.Scn.Kind = [2]string{"real", "adv"}
	p.Scn.DurationSec = 5
	p.Scn.BlockEverySec = 0
	lab := &world.LabCfg{
		PreLen:  pick(t, "prelen", []int{32, 32, 32, 0, 1, 20, 31, 33, 64, 65, 520}),
		CSV:     pick(t, "csv", []uint32{1008, 1008, 10080, 60}),
		SameKey: rapid.IntRange(0, 9).Draw(t, "samekey") == 0,
		Amount:  pick(t, "amount", []uint64{100_000, 2_000, 20_000_000}),
	}
	labels := []string{"sigT", "sigM", "sigO", "sigT-none", "sigM-single-acp", "sigT-badmsg", "sigM-badmsg", "pre", "pre-flip", "junk32", "pre-trunc", "pre-plus", "hash", "empty", "one", "zero", "script"}
	csv := int64(lab.CSV)
	n := rapid.IntRange(4, 24).Draw(t, "nattempts")
	for i := 0; i < n; i++ {
		var items []string
		switch rapid.IntRange(0, 4).Draw(t, "shape") {
		case 0:
			items = []string{"sigT", "pre", "empty", "empty"}
		case 1:
			items = []string{"sigT", "sigM", "empty"}
		case 2:
			items = []string{"sigM"}
		case 3:
			items = []string{pick(t, "tsig", []string{"sigT", "sigT-none"}), pick(t, "mid", []string{"pre", "sigM", "sigM-single-acp"}), "empty", "empty"}
			if items[1] != "pre" {
				items = items[:3]
			}
		default:
			for j, k := 0, rapid.IntRange(0, 5).Draw(t, "nitems"); j < k; j++ {
				items = append(items, pick(t, "item", labels))
			}
		}
		for j, k := 0, pick(t, "nmut", []int{0, 0, 1, 1, 2}); j < k && len(items) > 0; j++ {
			switch rapid.IntRange(0, 3).Draw(t, "mut") {
			case 0: // replace
				items[rapid.IntRange(0, len(items)-1).Draw(t, "mpos")] = pick(t, "mitem", labels)
			case 1: // insert
				pos := rapid.IntRange(0, len(items)).Draw(t, "ipos")
				items = append(items[:pos], append([]string{pick(t, "iitem", labels)}, items[pos:]...)...)
			case 2: // remove
				pos := rapid.IntRange(0, len(items)-1).Draw(t, "rpos")
				items = append(items[:pos], items[pos+1:]...)
			case 3: // swap neighbours
				if len(items) > 1 {
					pos := rapid.IntRange(0, len(items)-2).Draw(t, "spos")
					items[pos], items[pos+1] = items[pos+1], items[pos]
				}
			}
		}
		if len(items) > 6 {
			items = items[:6]
		}
		seq := pick(t, "seq", []int64{0, 1, csv - 1, csv, csv, csv + 1, 0xffffffff, 0xfffffffd, 1<<22 | csv, 1<<31 | csv, 65535, 1<<16 | csv, 1<<16 | (csv - 1), 0xffff0000 | csv})
		depth := pick(t, "depth", []int64{0, 1, csv - 1, csv, csv + 1, 70000, seq & 0xffff, (seq & 0xffff) - 1})
		if depth < 0 {
			depth = 0
		}
		lab.Attempts = append(lab.Attempts, world.LabAttempt{Items: items, Seq: seq, Version: pick(t, "ver", []int32{2, 2, 2, 1, 3}), Depth: uint32(depth)})
	}
	p.Lab = lab
	return p
}

// C24: the real lnd adapter over the simulated LND, the real clightning adapter over the simulated lightningd. Hostile makers issue fee and
// claim invoices with foreign destinations, odd amounts and CLTV values; honest
// pairs run with both spellings of the channel id.
func init() {
	register(&PropDef{
		ID: "C24",
		Gen: func(t *rapid.T, tier string) *world.Plan {
			var p *world.Plan
			if rapid.IntRange(0, 2).Draw(t, "honest-pair") == 0 {
				p = genPlan(t, genOpts{adapters: 100, clnAdapters: 100, sched: true, maxNet: 1, maxLN: 1, maxCrashes: 1, secondOp: true, duration: []int{300, 600}, restartMs: []int{500, 5000}})
				return p
			}
			p = advMakerPlan(t, nil, rapid.Bool().Draw(t, "deviate"))
			be := pick(t, "backend", []string{"lnd", "cln"})
			p.Scn.Flavor[0], p.Scn.Adapter[0] = be, be
			cfg := p.AdvCfg
			if rapid.IntRange(0, 2).Draw(t, "foreign-dest") == 0 {
				cfg.Inv.Dest = "third"
			}
			if rapid.IntRange(0, 3).Draw(t, "foreign-fee-dest") == 0 {
				cfg.FeeDest = "third"
			}
			p.Scn.Channels = append(p.Scn.Channels, world.ChannelCfg{Block: 200, Tx: 2, Out: 0, A: 0, B: 2, BalA: 2_000_000_000, BalB: 2_000_000_000})
			return p
		},
		Monitors:   world.MonitorsFor("C24"),
		Nontrivial: func(r *world.Result) bool { return probe(r, "C24:request-checked") },
	})
}
