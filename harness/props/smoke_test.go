package props

import (
	"flag"
	"fmt"
	"os"
	"strings"
	"testing"

	"verifharness/world"
)

var (
	flagChain = flag.String("chain", "btc", "chain for smoke")
	flagType  = flag.String("type", "swapout", "swap type for smoke")
	flagDump  = flag.Bool("dump", false, "dump event log")
	flagLB    = flag.String("lb", "elementsd", "liquid backend")
)

func smokePlan() *world.Plan {
	p := &world.Plan{Seed: 1, Scn: world.DefaultScenario()}
	p.Scn.LiquidBackend = [2]string{*flagLB, *flagLB}
	p.Ops = []world.Op{{AtMs: 2000, Node: 0, Kind: *flagType, Chain: *flagChain, Chan: 0, Amount: 1_000_000, Limit: 10000}}
	return p
}

func TestSmoke(t *testing.T) {
	p := smokePlan()
	res := world.Run(t, p, nil)
	fmt.Printf("end=%s steps=%d simtime=%v obs=%d msgs=%d ops=%v hash=%.16s\n", res.End, res.Steps, res.SimTime, res.NObs, res.Msgs, res.NodeOps, res.LogHash)
	for _, s := range res.Swaps {
		fmt.Printf("  swap n%d %s %s %s %.8s\n", s.Node, s.Type, s.Role, s.State, s.ID)
	}
	fmt.Println("infra:", res.Infra)
	fmt.Println("violations:", res.Violations)
	if *flagDump {
		for _, l := range res.Log {
			if !strings.Contains(l, "STEP") || os.Getenv("STEPS") != "" {
				fmt.Println(l)
			}
		}
		for i := 0; i < 2; i++ {
			fmt.Printf("--- node %d log\n", i)
			for _, l := range res.NodeLogs[i] {
				fmt.Println(l)
			}
		}
	}
}
