package props

import (
	"pgregory.net/rapid"

	"verifharness/world"
)

func init() {
	register(&PropDef{
		ID: "C08",
		Gen: func(t *rapid.T, tier string) *world.Plan {
			p := genPlan(t, genOpts{sched: true, layouts: true, premiums: true, maxCrashes: 1, maxFaults: 1, duration: []int{120, 300}, adapters: 60, clnAdapters: 60,
				sites: []string{"ln.invoice", "lwallet.open", "btcwallet.open", "store.update"}, realLWallet: 70})
			if rapid.IntRange(0, 4).Draw(t, "wallet-trouble") == 0 && len(p.Ops) > 0 {
				// focused: the wallet daemon refuses the first broadcast of the opening (min relay
				// fee) or its acknowledgement is lost, and it places the outputs it adds at a random
				// position anew for every funding; the message must describe what was broadcast
				op := p.Ops[0]
				maker := op.Node
				if op.Kind == "swapout" {
					maker = 1 - op.Node
				}
				site := "lwallet.open"
				if op.Chain == "btc" {
					site = pick(t, "wtsite", []string{"btcwallet.open", "btcwallet.publish"})
				}
				p.Scn.Layout[maker].Change, p.Scn.Layout[maker].RandomPos, p.Scn.Layout[maker].Extra = true, true, rapid.IntRange(0, 2).Draw(t, "wtextra")
				p.Scn.RealLiquidWallet[maker] = true
				p.Faults = []world.Fault{{Node: maker, Site: site, Occ: 1, Kind: pick(t, "wtkind", []string{"reject26", "reject26", "errafter", "err"}), N: 1}}
			}
			return p
		},
		Monitors:   world.MonitorsFor("C08"),
		Nontrivial: func(r *world.Result) bool { return probe(r, "C08:opening-message-checked") },
	})
	register(&PropDef{
		ID: "C03",
		Gen: func(t *rapid.T, tier string) *world.Plan {
			p := genPlan(t, genOpts{sched: true, layouts: true, premiums: true, maxCrashes: 1, maxFaults: 2, maxLN: 1, silence: true, healProb: 60, adapters: 60, clnAdapters: 60, realLWallet: 70,
				sites:      []string{"lwallet.fee", "btc.estimatefee", "lwallet.newaddr", "btcwallet.newaddr", "lwallet.sendraw", "btcwallet.spend", "ln.pay"},
				faultKinds: []string{"err", "zero", "huge", "errafter"}, inject: []string{"cancel"}, maxInject: 1})
			for i := range p.Scn.BtcFeePerKw {
				p.Scn.BtcFeePerKw[i] = pick(t, "feekw", []int64{253, 2500, 25000})
				p.Scn.LiquidFeeRate[i] = pick(t, "lfee", []int64{100, 1000})
			}
			return p
		},
		Monitors:   world.MonitorsFor("C03"),
		Nontrivial: func(r *world.Result) bool { return probe(r, "C03:spend-checked") },
	})
}
