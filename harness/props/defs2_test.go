package props

import (
	"pgregory.net/rapid"

	"verifharness/world"
)

func init() {
	register(&PropDef{
		ID: "C08",
		Gen: func(t *rapid.T, tier string) *world.Plan {
			p := genPlan(t, genOpts{sched: true, layouts: true, premiums: true, maxCrashes: 1, maxFaults: 1, duration: []int{120, 300}, adapters: 60, clnAdapters: 60,
				sites: []string{"ln.invoice", "lwallet.open", "btcwallet.open", "store.update"}})
			return p
		},
		Monitors:   world.MonitorsFor("C08"),
		Nontrivial: func(r *world.Result) bool { return probe(r, "C08:opening-message-checked") },
	})
	register(&PropDef{
		ID: "C03",
		Gen: func(t *rapid.T, tier string) *world.Plan {
			p := genPlan(t, genOpts{sched: true, layouts: true, premiums: true, maxCrashes: 1, maxFaults: 2, maxLN: 1, silence: true, healProb: 60, adapters: 60, clnAdapters: 60,
				sites:      []string{"lwallet.fee", "btc.estimatefee", "lwallet.newaddr", "btcwallet.newaddr", "lwallet.sendraw", "btcwallet.spend", "ln.pay"},
				faultKinds: []string{"err", "zero", "huge", "errafter"}, inject: []string{"cancel"}, maxInject: 1})
			for i := range p.Scn.BtcFeePerKw {
				p.Scn.BtcFeePerKw[i] = pick(t, "feekw", []int64{253, 2500, 25000})
				p.Scn.LiquidFeeRate[i] = pick(t, "lfee", []int64{100, 1000})
			}
			return p
		},
		Monitors:   world.MonitorsFor("C03"),
		Nontrivial: func(r *world.Result) bool { return probe(r, "C03:spend-checked") },
	})
}
