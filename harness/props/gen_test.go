package props

import (
	"os"
	"strconv"
	"pgregory.net/rapid"

	"github.com/elementsproject/peerswap/verifsim/rt"
	"verifharness/world"
)

// genOpts steers the shared plan generator (swarm style: every run varies
// sizes, mixes, enabled fault kinds).
type genOpts struct {
	chains        []string
	types         []string
	maxCrashes    int
	maxFaults     int
	maxNet        int
	maxLN         int
	healProb      int // percent
	healAlways    bool
	silence       bool
	silenceAlways bool
	inject        []string // injection templates to draw from
	maxInject     int
	sched         bool
	layouts       bool
	secondOp      bool // a second operator swap on the same channel (both spellings)
	peerOps       bool // the peer also initiates
	realLWallet   int  // percent of elementsd-backed nodes that run the real wallet.ElementsRpcWallet over a simulated elementsd
	clnAdapters   int  // percent of cln-flavoured nodes that run the real clightning adapter over the simulated lightningd (tier 3)
	adapters      int  // percent of lnd-flavoured nodes that run the real lnd adapter over the simulated LND (tier 2)
	csvBurst      int  // percent of plans in which the chain jumps past the CSV during the fault phase (with service outages around the jump)
	reorgs        bool
	sites         []string
	faultKinds    []string
	policyOps     bool
	premiums      bool
	flavors       []string
	backends      []string
	duration      []int
	restartMs     []int
	amounts       []uint64
}

var allSites = []string{
	"net.send", "ln.pay", "ln.invoice", "ln.notifier", "ln.spendable", "ln.receivable", "ln.probe", "ln.recover",
	"store.update", "btcwallet.open", "btcwallet.spend", "btcwallet.label", "btcwallet.newaddr", "btcwallet.balance",
	"lwallet.open", "lwallet.sendraw", "lwallet.newaddr", "lwallet.balance", "lwallet.label", "lwallet.fee",
	"btc.rpc.height", "btc.rpc.gettxout", "btc.rpc.blockhash", "btc.rpc.getrawtx",
	"lbtc.rpc.height", "lbtc.rpc.gettxout", "lbtc.rpc.blockhash", "lbtc.rpc.getrawtx",
	"btc.estimatefee", "electrum.history", "electrum.getrawtx",
}

func pick[T any](t *rapid.T, label string, xs []T) T {
	return xs[rapid.IntRange(0, len(xs)-1).Draw(t, label)]
}

func genPlan(t *rapid.T, o genOpts) *world.Plan {
	p := &world.Plan{Scn: world.DefaultScenario()}
	p.Seed = rapid.Uint64Range(1, 1<<40).Draw(t, "seed")
	scn := &p.Scn
	if len(o.chains) == 0 {
		o.chains = []string{"btc", "lbtc"}
	}
	if len(o.types) == 0 {
		o.types = []string{"swapout", "swapin"}
	}
	if len(o.flavors) == 0 {
		o.flavors = []string{"cln", "lnd"}
	}
	if len(o.backends) == 0 {
		o.backends = []string{"elementsd", "lwk"}
	}
	if len(o.duration) == 0 {
		o.duration = []int{300, 900, 1500}
	}
	if len(o.restartMs) == 0 {
		o.restartMs = []int{500, 5000, 60000, 700000}
	}
	if len(o.amounts) == 0 {
		o.amounts = []uint64{100_000, 250_000, 1_000_000, 2_000_000}
	}
	chain := pick(t, "chain", o.chains)
	typ := pick(t, "type", o.types)
	initiator := rapid.IntRange(0, 1).Draw(t, "initiator")
	for i := 0; i < 2; i++ {
		scn.Flavor[i] = pick(t, "flavor", o.flavors)
		scn.LiquidBackend[i] = pick(t, "backend", o.backends)
	}
	if o.clnAdapters == 0 {
		o.clnAdapters = 30 // default share of cln-flavoured nodes running the real clightning adapter (tier 3); negative = none
	}
	if v, err := strconv.Atoi(os.Getenv("VERIF_TIER3_PCT")); err == nil && v > 0 {
		// development aid: concentrate a batch on the clightning adapter
		o.clnAdapters = v
		if len(o.flavors) > 1 {
			o.flavors = []string{"cln", "cln", "lnd"}
		}
	}
	if o.adapters == 0 {
		o.adapters = 40 // default share of lnd-flavoured nodes running the real adapter (tier 2); negative = none
	}
	if o.realLWallet == 0 {
		o.realLWallet = 40
	}
	if v, err := strconv.Atoi(os.Getenv("VERIF_REALLW_PCT")); err == nil && v > 0 {
		o.realLWallet = v // development aid: concentrate a batch on the real Liquid wallets
	}
	for i := 0; i < 2; i++ {
		if o.realLWallet > 0 && rapid.IntRange(0, 99).Draw(t, "real-lwallet") < o.realLWallet {
			scn.RealLiquidWallet[i] = true
		}
	}
	for i := 0; i < 2; i++ {
		if o.adapters > 0 && scn.Flavor[i] == "lnd" && rapid.IntRange(0, 99).Draw(t, "adapter") < o.adapters {
			scn.Adapter[i] = "lnd"
		}
		if o.clnAdapters > 0 && scn.Flavor[i] == "cln" && rapid.IntRange(0, 99).Draw(t, "cln-adapter") < o.clnAdapters {
			scn.Adapter[i] = "cln" // tier 3
		}
	}
	scn.DurationSec = pick(t, "duration", o.duration)
	scn.BlockEverySec = pick(t, "blockevery", []int{5, 20, 60})
	scn.NetLatencyMs = pick(t, "netlat", []int{10, 50, 800})
	scn.LNLatencyMs = pick(t, "lnlat", []int{50, 200, 3000})
	if o.layouts {
		for i := 0; i < 2; i++ {
			scn.Layout[i] = world.LayoutCfg{
				SwapIndex: rapid.IntRange(0, 2).Draw(t, "swapidx"),
				Change:    rapid.Bool().Draw(t, "change"),
				Extra:     rapid.IntRange(0, 1).Draw(t, "extra"),
				SpendChange: rapid.Bool().Draw(t, "spendchange"),
				DecoySameAmt: rapid.IntRange(0, 3).Draw(t, "decoy") == 0,
				DecoyLast:    rapid.Bool().Draw(t, "decoylast"),
				NestedInput:  rapid.IntRange(0, 3).Draw(t, "nestedinput") == 0,
				RandomPos:    rapid.IntRange(0, 2).Draw(t, "randompos") == 0,
			}
		}
	}
	if o.premiums {
		for i := 0; i < 2; i++ {
			if rapid.Bool().Draw(t, "setpremium") {
				scn.PremiumPPM[i] = []int64{pick(t, "ppm", []int64{0, 1000, -500, 10000}), pick(t, "ppm", []int64{0, 2000, -500, 10000}), pick(t, "ppm", []int64{0, 1000, -500}), pick(t, "ppm", []int64{0, 1000, 5000})}
			}
		}
	}
	amount := pick(t, "amount", o.amounts)
	limit := pick(t, "limit", []int64{0, 10000, 50000})
	if o.premiums {
		limit = pick(t, "limit2", []int64{-1000, 0, 1000, 10000, 50000})
	}
	p.Ops = append(p.Ops, world.Op{AtMs: 2000, Node: initiator, Kind: typ, Chain: chain, Chan: 0, Amount: amount, Limit: limit, Colon: rapid.IntRange(0, 3).Draw(t, "colon") == 0})
	if o.secondOp && rapid.Bool().Draw(t, "second") {
		p.Ops = append(p.Ops, world.Op{AtMs: pick(t, "at2", []int{2000, 2001, 2500, 30000}), Node: rapid.IntRange(0, 1).Draw(t, "node2"), Kind: pick(t, "type2", []string{"swapout", "swapin"}), Chain: pick(t, "chain2", o.chains), Chan: 0, Amount: pick(t, "amount2", o.amounts), Limit: 50000, Colon: rapid.Bool().Draw(t, "colon2")})
	}
	if o.peerOps && rapid.Bool().Draw(t, "peerop") {
		// the peer initiates too, on a second channel, so that two swaps really run at once in each node
		scn.Channels = append(scn.Channels, world.ChannelCfg{Block: 101, Tx: 1, Out: 1, A: 0, B: 1, BalA: 5_000_000_000, BalB: 5_000_000_000})
		p.Ops = append(p.Ops, world.Op{AtMs: pick(t, "atp", []int{2000, 2100, 5000, 30000}), Node: 1 - initiator, Kind: pick(t, "typep", []string{"swapout", "swapin"}), Chain: pick(t, "chainp", o.chains), Chan: 1, Amount: pick(t, "amountp", o.amounts), Limit: 50000})
	}
	if o.sched {
		if rapid.Bool().Draw(t, "randsched") {
			p.SchedSeed = rapid.Uint64Range(1, 1<<32).Draw(t, "schedseed")
			p.SchedRate = pick(t, "schedrate", []int{20, 100, 300})
		}
		n := rapid.IntRange(0, 3).Draw(t, "nperturb")
		for i := 0; i < n; i++ {
			p.Perturb = append(p.Perturb, rt.Perturb{Step: rapid.IntRange(1, 400).Draw(t, "pstep"), Pick: rapid.IntRange(1, 5).Draw(t, "ppick")})
		}
		p.SelectRot = rapid.IntRange(0, 2).Draw(t, "selrot")
	}
	if o.maxNet > 0 {
		n := rapid.IntRange(0, o.maxNet).Draw(t, "nnet")
		for i := 0; i < n; i++ {
			p.Net = append(p.Net, world.NetFault{Idx: rapid.IntRange(1, 14).Draw(t, "netidx"), Kind: pick(t, "netkind", []string{"drop", "dup", "delay"}), DelayMs: pick(t, "netdelay", []int{500, 15000, 700000})})
		}
	}
	if o.maxFaults > 0 {
		sites := o.sites
		if len(sites) == 0 {
			sites = allSites
		}
		kinds := o.faultKinds
		if len(kinds) == 0 {
			kinds = []string{"err", "err", "errafter", "errafter", "reject26"} // reject26: a wallet daemon refuses a broadcast with "min relay fee not met" (real wallets only)
		}
		n := rapid.IntRange(0, o.maxFaults).Draw(t, "nfaults")
		for i := 0; i < n; i++ {
			p.Faults = append(p.Faults, world.Fault{Node: rapid.IntRange(0, 1).Draw(t, "fnode"), Site: pick(t, "fsite", sites), Occ: rapid.IntRange(1, 6).Draw(t, "focc"), Kind: pick(t, "fkind", kinds), N: pick(t, "fn", []int{1, 1, 3, 40})})
		}
	}
	if o.maxCrashes > 0 {
		n := rapid.IntRange(0, o.maxCrashes).Draw(t, "ncrash")
		for i := 0; i < n; i++ {
			p.Crashes = append(p.Crashes, world.Crash{Node: rapid.IntRange(0, 1).Draw(t, "cnode"), AtOp: rapid.IntRange(1, 70).Draw(t, "cop"), RestartMs: pick(t, "crestart", o.restartMs)})
		}
	}
	if o.maxLN > 0 {
		n := rapid.IntRange(0, o.maxLN).Draw(t, "nln")
		for i := 0; i < n; i++ {
			p.LN = append(p.LN, world.LNFault{Idx: rapid.IntRange(1, 4).Draw(t, "lnidx"), Kind: pick(t, "lnkind", []string{"fail", "errpending-settle", "errpending-fail", "hold"}), DelayMs: pick(t, "lndelay", []int{0, 20000, 200000})})
		}
	}
	if o.reorgs && rapid.IntRange(0, 2).Draw(t, "reorg") == 0 {
		c := "btc"
		d := rapid.IntRange(1, 2).Draw(t, "reorgdepth")
		if chain == "lbtc" {
			c, d = "lbtc", 1
		}
		p.Chain = append(p.Chain, world.ChainEv{AtMs: rapid.IntRange(3000, 120000).Draw(t, "reorgat"), Chain: c, Kind: pick(t, "reorgkind", []string{"reorg", "reorg-delay"}), N: d})
	}
	if o.csvBurst > 0 && rapid.IntRange(0, 99).Draw(t, "csvburst") < o.csvBurst {
		// the CSV matures while faults are still flowing: one jump past the CSV at a known
		// time, with outages of the services a refund needs starting shortly before it
		at := pick(t, "burstat", []int{30000, 60000, 120000})
		n := 1010
		if chain == "lbtc" {
			n = 10090
		}
		p.Chain = append(p.Chain, world.ChainEv{AtMs: at, Chain: chain, Kind: "mine", N: n})
		if scn.DurationSec < at/1000+240 {
			scn.DurationSec = at/1000 + 240
		}
		for i, k := 0, rapid.IntRange(0, 2).Draw(t, "noutages"); i < k; i++ {
			from := at - pick(t, "outlead", []int{5000, 500, -200})
			p.Faults = append(p.Faults, world.Fault{Node: rapid.IntRange(0, 1).Draw(t, "outnode"),
				Site:   pick(t, "outsite", []string{"btcwallet.spend", "lwallet.sendraw", "btcwallet.newaddr", "lwallet.newaddr", "lwallet.fee", "btc.estimatefee", "btc.rpc.gettxout", "lbtc.rpc.gettxout", "btc.rpc.height", "lbtc.rpc.height", "electrum.history", "store.update"}),
				Kind:   pick(t, "outkind", []string{"err", "err", "errafter"}),
				FromMs: from, ToMs: from + pick(t, "outlen", []int{8000, 25000, 70000, 200000})})
		}
	}
	if o.silence && (o.silenceAlways || rapid.Bool().Draw(t, "silence")) {
		p.Silence = append(p.Silence, world.SilenceAt{Node: 1 - initiator, After: rapid.IntRange(0, 4).Draw(t, "silafter")})
		if rapid.IntRange(0, 3).Draw(t, "silboth") == 0 {
			p.Silence = append(p.Silence, world.SilenceAt{Node: initiator, After: rapid.IntRange(1, 4).Draw(t, "silafter2")})
		}
	}
	if len(o.inject) > 0 {
		n := rapid.IntRange(1, max(1, o.maxInject)).Draw(t, "ninject")
		for i := 0; i < n; i++ {
			p.Adv = append(p.Adv, world.AdvMove{Kind: "inject", AtMs: pick(t, "injat", []int{1500, 2020, 2080, 2200, 2400, 5000, 30000, 90000, 200000}), Arg: pick(t, "injtpl", o.inject), N: int64(rapid.IntRange(0, 1).Draw(t, "injto")), M: int64(pick(t, "injfrom", []int{2, 2, 0, 1}))})
		}
	}
	if o.policyOps {
		n := rapid.IntRange(0, 3).Draw(t, "npol")
		for i := 0; i < n; i++ {
			p.Ops = append(p.Ops, world.Op{AtMs: rapid.IntRange(500, 4000).Draw(t, "polat"), Node: rapid.IntRange(0, 1).Draw(t, "polnode"), Kind: pick(t, "polkind", []string{"policy-allow", "policy-unallow", "policy-suspect", "policy-unsuspect", "policy-disable", "policy-enable", "policy-reload"}), Peer: rapid.IntRange(0, 2).Draw(t, "polpeer"), Arg: "peer"})
		}
	}
	if o.healAlways || (o.healProb > 0 && rapid.IntRange(0, 99).Draw(t, "heal") < o.healProb) {
		p.Heal = world.HealCfg{On: true, Restarts: rapid.IntRange(0, 3).Draw(t, "healrestarts")}
	}
	return p
}
