package world

import "strings"

// c10probe counts lock contention (a second swap attempted on a busy channel),
// so that evidence can tell runs that exercised the rule from idle ones.
type c10probe struct{ base }

func (m *c10probe) Name() string { return "C10-probe" }

func (m *c10probe) OnObs(w *World, o *Obs) {
	switch o.Kind {
	case "op.result":
		if strings.Contains(o.Str, "already has an active swap") {
			w.Probe("C10:contention:local")
		}
	case "send":
		if o.Msg.Type == MsgCancel && strings.Contains(string(o.Msg.Payload), "already has an active swap") {
			w.Probe("C10:contention:request")
		}
	}
}
