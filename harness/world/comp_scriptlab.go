package world

import (
	"bytes"
	"context"
	"crypto/sha256"
	"encoding/hex"
	"fmt"
	"strings"

	"github.com/btcsuite/btcd/btcec/v2"
	"github.com/btcsuite/btcd/btcec/v2/ecdsa"
	"github.com/btcsuite/btcd/chaincfg"
	"github.com/btcsuite/btcd/chaincfg/chainhash"
	"github.com/btcsuite/btcd/txscript"
	"github.com/btcsuite/btcd/wire"
	"github.com/elementsproject/peerswap/onchain"
	"github.com/elementsproject/peerswap/swap"
	"github.com/vulpemventures/go-elements/network"
)

// Script laboratory (C02). In whole-node runs the hostile taker never holds the
// maker's key and every payment hash is the hash of a 32-byte preimage, so
// large parts of the statement ("all key pairs, payment hashes, preimages of
// other lengths, witness stacks of every shape") are out of reach there. Here
// the simulator holds every secret: it asks the real script builders
// (onchain.ParamsToTxScript, BitcoinOnChain.GetOutputScript,
// LiquidOnChain.GetOutputScript) for the output script of generated swap
// parameters and judges generated spends of that output with the chain's
// acceptance rule against refScript, an executable reading of the protocol
// document that shares nothing with the script engine.

type LabCfg struct {
	PreLen   int          `json:"pre_len"`  // length of the preimage whose SHA256 is committed
	CSV      uint32       `json:"csv"`      // 1008 (bitcoin), 10080 (liquid v7), 60 (legacy liquid)
	SameKey  bool         `json:"same_key"` // taker and maker use the same key
	Amount   uint64       `json:"amount"`
	Attempts []LabAttempt `json:"attempts"`
}

type LabAttempt struct {
	Items   []string `json:"items"` // witness items below the script, bottom first
	Seq     int64    `json:"seq"`
	Version int32    `json:"version"`
	Depth   uint32   `json:"depth"`
}

type labItem struct {
	label string
	data  []byte
	sigOf string // "T", "M", "TM" (same key), "" = not a valid signature of this input
}

func labKey(seed uint64, who string) *btcec.PrivateKey {
	h := sha256.Sum256([]byte(fmt.Sprintf("scriptlab-%d-%s", seed, who)))
	k, _ := btcec.PrivKeyFromBytes(h[:])
	return k
}

// refScript: does the specification allow this witness (bottom first, script
// excluded) to spend the opening output? Written from docs/peer-protocol.md:
//
//	<maker> CHECKSIG NOTIF
//	  <maker> CHECKSIG NOTIF SIZE 32 EQUALVERIFY SHA256 <hash> EQUALVERIFY ENDIF
//	  <taker> CHECKSIG
//	ELSE <csv> CHECKSEQUENCEVERIFY ENDIF
//
// under the standard rules (a failing signature check must be given the empty
// signature; exactly one true element remains).
func refScript(items []labItem, hash []byte, csv uint32, seq uint32, version int32) bool {
	st := append([]labItem(nil), items...)
	pop := func() (labItem, bool) {
		if len(st) == 0 {
			return labItem{}, false
		}
		x := st[len(st)-1]
		st = st[:len(st)-1]
		return x, true
	}
	checksig := func(x labItem, who string) (valid, ok bool) {
		valid = strings.Contains(x.sigOf, who)
		if !valid && len(x.data) != 0 {
			return false, false
		}
		return valid, true
	}
	x1, ok := pop()
	if !ok {
		return false
	}
	m1, ok := checksig(x1, "M")
	if !ok {
		return false
	}
	if m1 {
		// (c) maker alone, sequence commits to at least csv blocks
		if version < 2 || seq&wire.SequenceLockTimeDisabled != 0 || seq&wire.SequenceLockTimeIsSeconds != 0 {
			return false
		}
		if seq&wire.SequenceLockTimeMask < csv {
			return false
		}
		return len(st) == 0
	}
	x2, ok := pop()
	if !ok {
		return false
	}
	m2, ok := checksig(x2, "M")
	if !ok {
		return false
	}
	if !m2 {
		// (a) the next element must be the 32-byte preimage; SIZE leaves it in place
		if len(st) == 0 {
			return false
		}
		pre := st[len(st)-1]
		st = st[:len(st)-1]
		if len(pre.data) != 32 {
			return false
		}
		if h := sha256.Sum256(pre.data); !bytes.Equal(h[:], hash) {
			return false
		}
	}
	x4, ok := pop()
	if !ok {
		return false
	}
	t, ok := checksig(x4, "T")
	if !ok {
		return false
	}
	return t && len(st) == 0
}

func (n *Node) bootScriptLab(ctx context.Context) {
	w := n.w
	cfg := w.Plan.Lab
	n.Up, n.Recovered = true, true
	w.Observe(&Obs{Node: n.ID, Kind: "boot.done"})
	if cfg == nil {
		return
	}
	seed := w.Plan.Seed
	taker, maker, other := labKey(seed, "taker"), labKey(seed, "maker"), labKey(seed, "other")
	if cfg.SameKey {
		maker = taker
	}
	pre := make([]byte, cfg.PreLen)
	for i := range pre {
		pre[i] = byte(sha256.Sum256([]byte(fmt.Sprintf("pre-%d-%d", seed, i)))[0])
	}
	hash := sha256.Sum256(pre)
	amount := cfg.Amount
	if amount == 0 {
		amount = 100_000
	}
	params := &swap.OpeningParams{
		TakerPubkey:      hex.EncodeToString(taker.PubKey().SerializeCompressed()),
		MakerPubkey:      hex.EncodeToString(maker.PubKey().SerializeCompressed()),
		ClaimPaymentHash: hex.EncodeToString(hash[:]),
		Amount:           amount,
		CSV:              cfg.CSV,
	}
	redeem, err := onchain.ParamsToTxScript(params, cfg.CSV)
	if err != nil {
		w.Infraf("scriptlab: ParamsToTxScript: %v", err)
		return
	}
	// the output script the node would look for / pay to
	var pkScript []byte
	if cfg.CSV == onchain.BitcoinCsv {
		floor := onchain.LegacyFeeFloorSatPerKw
		pkScript, err = onchain.NewBitcoinOnChain(&estimatorStub{n}, floor, floor, &chaincfg.RegressionNetParams).GetOutputScript(params)
	} else {
		pkScript, err = onchain.NewLiquidOnChain(n.LiquidWallet, &network.Regtest).GetOutputScript(params)
	}
	if err != nil {
		w.Infraf("scriptlab: GetOutputScript: %v", err)
		return
	}
	wp := sha256.Sum256(redeem)
	if want := append([]byte{0x00, 0x20}, wp[:]...); !bytes.Equal(want, pkScript) {
		w.Violate("C02", "output-script-does-not-commit-to-the-swap-script", "the output script the node derives for csv %d (%x) is not P2WSH of the swap script built for that csv (%x)", cfg.CSV, pkScript, want)
		return
	}
	prevHash := chainhash.Hash(sha256.Sum256([]byte(fmt.Sprintf("lab-funding-%d", seed))))
	for ai, at := range cfg.Attempts {
		tx := wire.NewMsgTx(at.Version)
		in := wire.NewTxIn(wire.NewOutPoint(&prevHash, uint32(ai)), nil, nil)
		in.Sequence = uint32(at.Seq)
		tx.AddTxIn(in)
		tx.AddTxOut(wire.NewTxOut(int64(amount)-1500, append([]byte{0x00, 0x14}, bytes.Repeat([]byte{7}, 20)...)))
		fetcher := txscript.NewCannedPrevOutputFetcher(pkScript, int64(amount))
		sign := func(k *btcec.PrivateKey, ht txscript.SigHashType, badMsg bool) []byte {
			hashes := txscript.NewTxSigHashes(tx, fetcher)
			sh, err := txscript.CalcWitnessSigHash(redeem, hashes, ht, tx, 0, int64(amount))
			if err != nil {
				return nil
			}
			if badMsg {
				sh[0] ^= 0x55
			}
			return append(ecdsa.Sign(k, sh).Serialize(), byte(ht))
		}
		who := func(k *btcec.PrivateKey) string {
			s := ""
			if k == taker {
				s += "T"
			}
			if k == maker {
				s += "M"
			}
			return s
		}
		var items []labItem
		usable := true
		for _, lb := range at.Items {
			it := labItem{label: lb}
			switch lb {
			case "sigT":
				it.data, it.sigOf = sign(taker, txscript.SigHashAll, false), who(taker)
			case "sigM":
				it.data, it.sigOf = sign(maker, txscript.SigHashAll, false), who(maker)
			case "sigO":
				it.data = sign(other, txscript.SigHashAll, false)
			case "sigT-none":
				it.data, it.sigOf = sign(taker, txscript.SigHashNone, false), who(taker)
			case "sigM-single-acp":
				it.data, it.sigOf = sign(maker, txscript.SigHashSingle|txscript.SigHashAnyOneCanPay, false), who(maker)
			case "sigT-badmsg":
				it.data = sign(taker, txscript.SigHashAll, true)
			case "sigM-badmsg":
				it.data = sign(maker, txscript.SigHashAll, true)
			case "pre":
				it.data = pre
			case "pre-flip":
				it.data = append([]byte(nil), pre...)
				if len(it.data) > 0 {
					it.data[0] ^= 1
				} else {
					it.data = []byte{1}
				}
			case "junk32":
				it.data = bytes.Repeat([]byte{0xaa}, 32)
			case "pre-trunc":
				if len(pre) > 0 {
					it.data = pre[:len(pre)-1]
				}
			case "pre-plus":
				it.data = append(append([]byte(nil), pre...), 0)
			case "hash":
				it.data = hash[:]
			case "empty":
				it.data = []byte{}
			case "one":
				it.data = []byte{1}
			case "zero":
				it.data = []byte{0}
			case "script":
				it.data = redeem
			default:
				usable = false
			}
			if strings.HasPrefix(lb, "sig") && it.data == nil {
				usable = false
			}
			if it.data == nil {
				it.data = []byte{}
			}
			items = append(items, it)
		}
		if !usable {
			continue
		}
		seq := uint32(at.Seq)
		scriptOK := refScript(items, hash[:], cfg.CSV, seq, at.Version)
		if scriptOK && at.Version >= 2 && seq&wire.SequenceLockTimeDisabled == 0 && seq&wire.SequenceLockTimeIsSeconds != 0 {
			w.Probe("C02:lab:time-based-relative-lock-not-modelled")
			continue
		}
		expect := "reject"
		if scriptOK && bip68ok(at.Version, seq, at.Depth) == nil {
			expect = "accept"
		}
		var wit [][]byte
		for _, it := range items {
			wit = append(wit, it.data)
		}
		tx.TxIn[0].Witness = append(wit, redeem)
		verr := verifyBtcInput(tx, 0, pkScript, int64(amount), at.Depth)
		got, es := "accept", ""
		if verr != nil {
			got, es = "reject", verr.Error()
		}
		shape := strings.Join(at.Items, "+")
		if shape == "" {
			shape = "(script only)"
		}
		w.Probe("C02:spend-attempt:lab")
		w.Probe("C02:lab:expect-" + expect)
		if scriptOK {
			w.Probe(fmt.Sprintf("C02:lab:path-ok:%d-items", len(items)))
		}
		w.Observe(&Obs{Node: n.ID, Kind: "lab.spend", Str: fmt.Sprintf("%s|seq=%d|depth=%d|expect=%s|got=%s|prelen=%d csv=%d v%d samekey=%v|%s", shape, at.Seq, at.Depth, expect, got, cfg.PreLen, cfg.CSV, at.Version, cfg.SameKey, es), Num: int64(at.Depth)})
	}
}
