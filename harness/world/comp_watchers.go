package world

import (
	"bytes"
	"context"
	"crypto/sha256"
	"encoding/hex"
	"fmt"
	"time"

	"github.com/btcsuite/btcd/chaincfg"
	"github.com/btcsuite/btcd/wire"
	"github.com/elementsproject/peerswap/lnd"
	"github.com/elementsproject/peerswap/onchain"
	"github.com/elementsproject/peerswap/swap"
	"github.com/elementsproject/peerswap/txwatcher"
	"github.com/elementsproject/peerswap/verifsim/rt"
	"github.com/vulpemventures/go-elements/elementsutil"
	"github.com/vulpemventures/go-elements/transaction"
)

// WatchSpec is one registration with a chain watcher in the component
// simulation of C20.
type WatchSpec struct {
	Chain       string `json:"chain"`
	Kind        string `json:"kind"`          // conf, csv
	BroadcastMs int    `json:"broadcast_ms"`  // -1: never broadcast
	RegisterMs  int    `json:"register_ms"`   // when the watcher is asked to watch
	StartOffset int    `json:"start_offset"`  // starting height = tip at registration + offset
	Window      uint32 `json:"window"`        // payment window (conf)
	CSV         uint32 `json:"csv"`           // csv (csv)
	WrongVout   bool   `json:"wrong_vout,omitempty"`
}

// CompOp is a step of a component simulation script.
type CompOp struct {
	AtMs int    `json:"at_ms"`
	Kind string `json:"kind"`
	Arg  string `json:"arg,omitempty"`
	Peer int    `json:"peer,omitempty"`
	N    int64  `json:"n,omitempty"`
	S    string `json:"s,omitempty"`
}

func (n *Node) bootComponent(ctx context.Context) {
	switch n.w.Plan.Scn.Component {
	case "watchers":
		n.bootWatchers(ctx)
	case "policy":
		n.bootPolicyComp(ctx)
	case "peersync":
		n.bootPeersyncComp(ctx)
	case "scriptlab":
		n.bootScriptLab(ctx)
	}
}

// watchReg is ground truth about one registration.
type watchReg struct {
	idx     int
	spec    WatchSpec
	swapID  string
	txid    string
	vout    uint32
	start   uint32
	regAt   time.Duration
	script  []byte
	reports []watchReport
}

type watchReport struct {
	at        time.Duration
	kind      string // conf, conf-err, csv
	err       string
	lastQuery time.Duration
}

// chainSnap is the chain state after one change (for "some state between the
// watcher's last query and the callback").
type chainSnap struct {
	at     time.Duration
	height uint32
	conf   map[string]uint32 // txid -> confirmation height
}

func (c *SimChain) snapshot() {
	s := chainSnap{at: c.w.Sim.Now(), height: c.Height(), conf: map[string]uint32{}}
	for k, v := range c.confAt {
		s.conf[k] = v
	}
	c.History = append(c.History, s)
}

func watchScript(i int) []byte {
	h := sha256.Sum256([]byte(fmt.Sprintf("watch-%d", i)))
	return append([]byte{0x00, 0x20}, h[:]...)
}

func (n *Node) bootWatchers(ctx context.Context) {
	w := n.w
	var btcW, lbtcW swap.TxWatcher
	btcW = txwatcher.NewBlockchainRpcTxWatcher(ctx, &rpcStub{n: n, c: w.BTC}, onchain.BitcoinMinConfs)
	if w.Plan.Scn.Adapter[n.ID] == "lnd" {
		// tier 2: the lnd adapter's own watcher over the simulated LND's chain notifier
		n.lnd = newFakeLnd(n)
		lt, err := lnd.NewTxWatcher(ctx, n.lnd.cc, &chaincfg.RegressionNetParams, onchain.BitcoinMinConfs, onchain.BitcoinCsv)
		if err != nil {
			w.Infraf("lnd watcher: %v", err)
			return
		}
		btcW = lt
	}
	lw, err := n.newLiquidWatcher(ctx)
	if err != nil {
		w.Infraf("liquid watcher: %v", err)
		return
	}
	lbtcW = lw
	n.BtcW, n.LbtcW = btcW, lbtcW
	for _, tw := range []struct {
		w     swap.TxWatcher
		chain string
	}{{btcW, "btc"}, {lbtcW, "lbtc"}} {
		chain := tw.chain
		tw.w.AddConfirmationCallback(func(swapId string, txHex string, err error) error {
			n.checkAlive()
			es := ""
			if err != nil {
				es = err.Error()
			}
			w.Observe(&Obs{Node: n.ID, Inc: n.inc, Kind: "cb.conf", Str: swapId + "|" + chain + "|" + es, Tx: &TxObs{Chain: chain, Hex: txHex}})
			return nil
		})
		tw.w.AddCsvCallback(func(swapId string) error {
			n.checkAlive()
			w.Observe(&Obs{Node: n.ID, Inc: n.inc, Kind: "cb.csv", Str: swapId + "|" + chain + "|"})
			return nil
		})
	}
	if err := lbtcW.StartWatchingTxs(); err != nil {
		w.Observe(&Obs{Node: n.ID, Kind: "boot.fail", Str: "liquid StartWatchingTxs: " + err.Error()})
		return
	}
	if err := btcW.StartWatchingTxs(); err != nil {
		w.Observe(&Obs{Node: n.ID, Kind: "boot.fail", Str: "bitcoin StartWatchingTxs: " + err.Error()})
		return
	}
	rt.ReleaseLineage()
	n.Up = true
	n.Recovered = true
	w.Observe(&Obs{Node: n.ID, Inc: n.inc, Kind: "boot.done"})
}

// scheduleWatches arms broadcasts and registrations of the watcher component sim.
func (w *World) scheduleWatches() {
	for i := range w.Plan.Watch {
		i := i
		spec := w.Plan.Watch[i]
		c := w.BTC
		if spec.Chain == "lbtc" {
			c = w.LBTC
		}
		script := watchScript(i)
		var rawHex, txid string
		if spec.Chain == "btc" {
			m := wire.NewMsgTx(2)
			m.AddTxIn(wire.NewTxIn(wire.NewOutPoint(ptrHash(randHashSeeded(uint64(i)+w.Plan.Seed)), 0), nil, [][]byte{{1}}))
			m.AddTxOut(wire.NewTxOut(100000, script))
			m.AddTxOut(wire.NewTxOut(5000, []byte{0x00, 0x14, 1, 2, 3, 4, 5, 6, 7, 8, 9, 10, 11, 12, 13, 14, 15, 16, 17, 18, 19, 20}))
			var buf bytes.Buffer
			m.Serialize(&buf)
			rawHex, txid = hex.EncodeToString(buf.Bytes()), m.TxHash().String()
		} else {
			t := transaction.NewTx(2)
			h := randHashSeeded(uint64(i) + w.Plan.Seed)
			t.AddInput(transaction.NewTxInput(h[:], 0))
			asset := append([]byte{0x01}, bytes.Repeat([]byte{0x11}, 32)...)
			v, _ := elementsutil.ValueToBytes(100000)
			t.AddOutput(transaction.NewTxOutput(asset, v, script))
			v2, _ := elementsutil.ValueToBytes(300)
			t.AddOutput(transaction.NewTxOutput(asset, v2, []byte{}))
			rawHex, _ = t.ToHex()
			txid = t.TxHash().String()
		}
		reg := &watchReg{idx: i, spec: spec, swapID: hex.EncodeToString(sha256sum(fmt.Sprintf("watch-swap-%d", i))), txid: txid, script: script}
		if spec.WrongVout {
			reg.vout = 1
		}
		w.Watches = append(w.Watches, reg)
		if spec.BroadcastMs >= 0 {
			w.Sim.After(ms(spec.BroadcastMs), "watch", fmt.Sprintf("broadcast#%d", i), func() {
				if _, err := c.Broadcast(2, rawHex, "watched"); err != nil {
					w.Infraf("watched tx rejected: %v", err)
				}
			})
		}
		w.Sim.After(ms(spec.RegisterMs), "watch", fmt.Sprintf("register#%d", i), func() {
			n := w.Nodes[0]
			if !n.Up {
				return
			}
			start := int64(c.Height()) + int64(spec.StartOffset)
			if start < 1 {
				start = 1
			}
			reg.start = uint32(start)
			reg.regAt = w.Sim.Now()
			tw := n.BtcW
			if spec.Chain == "lbtc" {
				tw = n.LbtcW
			}
			w.Sim.Spawn(0, fmt.Sprintf("register#%d", i), func() {
				n.checkAlive()
				w.Observe(&Obs{Node: 0, Kind: "watch.register", Str: fmt.Sprintf("%s|%s|%s|start=%d", reg.swapID, spec.Chain, spec.Kind, reg.start), Num: int64(i)})
				if spec.Kind == "conf" {
					tw.AddWaitForConfirmationTx(reg.swapID, reg.txid, reg.vout, reg.start, spec.Window, reg.script)
				} else {
					tw.AddWaitForCsvTx(reg.swapID, reg.txid, reg.vout, reg.start, spec.CSV, reg.script)
				}
			})
		})
	}
}

func sha256sum(s string) []byte { h := sha256.Sum256([]byte(s)); return h[:] }

// ---------------------------------------------------------------------------
// C20 — watchers report confirmation / CSV maturity only when true.

type monC20 struct {
	base
	lastQuery map[string]time.Duration // chain -> time of the node's last RPC read
}

func (m *monC20) Name() string { return "C20" }

func (m *monC20) OnObs(w *World, o *Obs) {
	if o.Kind != "cb.conf" && o.Kind != "cb.csv" {
		return
	}
	var swapID, chain, es string
	f := splitN(o.Str, "|", 3)
	swapID, chain, es = f[0], f[1], f[2]
	var reg *watchReg
	for _, r := range w.Watches {
		if r.swapID == swapID && r.spec.Chain == chain {
			reg = r
		}
	}
	if reg == nil {
		w.Violate("C20", "report-for-unknown-registration", "watcher reported %s for unknown swap %.8s", o.Kind, swapID)
		return
	}
	c := w.BTC
	need := uint32(3)
	if chain == "lbtc" {
		c, need = w.LBTC, 2
	}
	backend := "rpc"
	if chain == "lbtc" && w.Plan.Scn.LiquidBackend[0] == "lwk" {
		backend = "electrum"
	}
	if chain == "btc" && w.Plan.Scn.Adapter[0] == "lnd" {
		backend = "lnd"
	}
	kind := "csv"
	if o.Kind == "cb.conf" {
		kind = "conf"
		if es != "" {
			kind = "conf-err"
		}
	}
	lq := w.Nodes[0].LastQueryAt(chain)
	reg.reports = append(reg.reports, watchReport{at: o.T, kind: kind, err: es, lastQuery: lq})
	w.Probe("C20:report:" + backend + ":" + kind)
	if len(reg.reports) > 1 {
		w.Violate("C20", "second-report:"+backend+":"+reg.spec.Kind, "%s watcher reported registration %d (%s of %.12s) %d times: %+v", backend, reg.idx, reg.spec.Kind, reg.txid, len(reg.reports), reg.reports)
	}
	// truth at some chain state between the watcher's last query and the callback
	from := lq
	if from > o.T || from == 0 {
		from = o.T
	}
	holds := func(pred func(s chainSnap) bool) bool {
		// the state in force at `from` and every later state up to now
		var inForce *chainSnap
		for i := range c.History {
			s := c.History[i]
			if s.at <= from {
				inForce = &c.History[i]
				continue
			}
			if s.at <= o.T && pred(s) {
				return true
			}
		}
		if inForce != nil && pred(*inForce) {
			return true
		}
		return false
	}
	switch kind {
	case "conf":
		if reg.spec.Kind != "conf" {
			w.Violate("C20", "conf-report-for-csv-registration:"+backend, "confirmation callback for a CSV registration")
			return
		}
		ok := holds(func(s chainSnap) bool {
			h, in := s.conf[reg.txid]
			return in && s.height-h+1 >= need && uint64(s.height) < uint64(reg.start)+uint64(reg.spec.Window)
		})
		if !ok {
			h, in := c.confAt[reg.txid]
			w.Violate("C20", "false-confirmation:"+backend, "%s watcher reported opening tx %.12s as confirmed, but between its last query (%v) and the callback (%v) the transaction never had %d confirmations inside the window [start %d, +%d): now tip=%d confirmedAt=%d(%v)", backend, reg.txid, from, o.T, need, reg.start, reg.spec.Window, c.Height(), h, in)
		}
		// window closed for the watcher already?
		if sh, okh := w.Nodes[0].ServedHeight(chain); okh && uint64(sh) >= uint64(reg.start)+uint64(reg.spec.Window) && uint64(c.Height()) >= uint64(reg.start)+uint64(reg.spec.Window) {
			if !holds(func(s chainSnap) bool { return uint64(s.height) < uint64(reg.start)+uint64(reg.spec.Window) }) {
				w.Violate("C20", "confirmation-after-window-closed:"+backend, "%s watcher reported confirmation of %.12s although the payment window [%d,+%d) had closed (tip %d)", backend, reg.txid, reg.start, reg.spec.Window, c.Height())
			}
		}
	case "csv":
		if reg.spec.Kind != "csv" {
			w.Violate("C20", "csv-report-for-conf-registration:"+backend, "%s watcher answered a confirmation registration (start %d, window %d, tip %d) with the CSV callback", backend, reg.start, reg.spec.Window, c.Height())
			return
		}
		ok := holds(func(s chainSnap) bool {
			h, in := s.conf[reg.txid]
			return in && s.height-h+1 >= reg.spec.CSV
		})
		if !ok {
			w.Violate("C20", "false-csv-maturity:"+backend, "%s watcher reported CSV maturity of %.12s (csv %d) but its depth never reached that between the last query and the callback (tip %d, confirmations %d)", backend, reg.txid, reg.spec.CSV, c.Height(), c.Confirmations(reg.txid))
		}
	}
}

func (m *monC20) Final(w *World) {
	for _, reg := range w.Watches {
		if reg.regAt == 0 || reg.spec.Kind != "conf" {
			continue
		}
		c := w.BTC
		if reg.spec.Chain == "lbtc" {
			c = w.LBTC
		}
		backend := "rpc"
		if reg.spec.Chain == "lbtc" && w.Plan.Scn.LiquidBackend[0] == "lwk" {
			backend = "electrum"
		}
		if reg.spec.Chain == "btc" && w.Plan.Scn.Adapter[0] == "lnd" {
			backend = "lnd"
		}
		// window closed long ago (the watcher saw several later blocks) and still no report at all
		closed := uint64(reg.start) + uint64(reg.spec.Window)
		if uint64(c.Height()) >= closed+3 && len(reg.reports) == 0 && w.Nodes[0].Up && w.Sim.Now()-reg.regAt > 60*time.Second {
			// how long ago did the tip pass the deadline?
			var passedAt time.Duration = -1
			for _, s := range c.History {
				if uint64(s.height) >= closed {
					passedAt = s.at
					break
				}
			}
			blocksAfter := 0
			for _, s := range c.History {
				if s.at > passedAt && s.at > reg.regAt {
					blocksAfter++
				}
			}
			if passedAt >= 0 && blocksAfter >= 3 && w.Sim.Now()-passedAt > 30*time.Second && !w.faultsTouched(reg.spec.Chain) {
				w.Violate("C20", "no-failure-report-after-window-closed:"+backend, "%s watcher never reported a failure for registration %d (%.12s): window [%d,+%d) closed at %v, tip is %d, %d later chain changes seen", backend, reg.idx, reg.txid, reg.start, reg.spec.Window, passedAt, c.Height(), blocksAfter)
			}
		}
		w.Probe("C20:registration-checked")
	}
}

func splitN(s, sep string, n int) []string {
	out := make([]string, n)
	i := 0
	for i < n-1 {
		k := indexOf(s, sep)
		if k < 0 {
			break
		}
		out[i] = s[:k]
		s = s[k+len(sep):]
		i++
	}
	out[i] = s
	return out
}

func indexOf(s, sep string) int {
	for i := 0; i+len(sep) <= len(s); i++ {
		if s[i:i+len(sep)] == sep {
			return i
		}
	}
	return -1
}
