package world

import (
	"github.com/elementsproject/peerswap/peersync"
	"github.com/elementsproject/peerswap/premium"
	"github.com/elementsproject/peerswap/version"
)

func currentDBVersion() string { return version.GetCurrentVersion() }

func storedBtcOut(p *peersync.Peer) int64 {
	c := p.Capability()
	if c == nil {
		return 0
	}
	r := c.GetPremiumRate(premium.BTC, premium.SwapOut)
	if r == nil {
		return 0
	}
	return r.Value()
}

// CurrentDBVersion is the database version of the code under test.
func CurrentDBVersion() string { return version.GetCurrentVersion() }
