package world

import (
	"context"
	"encoding/json"
	"fmt"
	"time"

	"github.com/elementsproject/peerswap/policy"
	"github.com/elementsproject/peerswap/premium"
	"go.etcd.io/bbolt"
)

// C28 component simulation: the real PeerSync (poller, handler, guard, store)
// with the real policy and premium stores, over a stub Lightning; no swap
// service, no chain watchers (so hours of virtual time are cheap).
func (n *Node) bootPeersyncComp(ctx context.Context) {
	w := n.w
	db, err := bbolt.Open(n.dbPath, 0o600, &bbolt.Options{NoSync: true, NoFreelistSync: true, Timeout: time.Second})
	if err != nil {
		w.Infraf("bbolt: %v", err)
		return
	}
	n.db = db
	pol, err := policy.CreateFromFile(n.policyPath)
	if err != nil {
		w.Infraf("policy: %v", err)
		return
	}
	n.Pol = pol
	ps, err := premium.NewSetting(db)
	if err != nil {
		w.Infraf("premium: %v", err)
		return
	}
	n.PS = ps
	n.Up, n.Recovered = true, true
	w.Observe(&Obs{Node: n.ID, Inc: n.inc, Kind: "boot.done"})
	n.startPeersync(ctx, pol, ps)
}

// ---------------------------------------------------------------------------
// C28 — peer-sync keeps an accurate, persistent view of peers.

type refPeer struct {
	version  uint64
	rate     int64
	has      bool
	lastObs  time.Duration
	lastSeen time.Duration // last time the reference was updated
}

type monC28 struct {
	base
	ref        map[int]*refPeer            // peer -> reference view held by node 0
	reqSends   map[int][]time.Duration     // request_poll sends to peers unknown at that time
	startedAt  time.Duration
	connSince  map[int]time.Duration       // peer -> connected since (for "removed only while disconnected")
	pending    []c28pending
}

type c28pending struct {
	at   time.Duration
	peer int
}

func (m *monC28) Name() string { return "C28" }

func (m *monC28) OnObs(w *World, o *Obs) {
	switch o.Kind {
	case "peersync.started":
		m.startedAt = o.T
		m.reqSends = map[int][]time.Duration{}
		// after a restart the stored view must equal the reference (reload unchanged)
		m.compareAll(w, "after-restart")
	case "deliver":
		if o.Node != 0 || (o.Msg.Type != MsgPoll && o.Msg.Type != MsgRequestPoll) {
			return
		}
		n := w.Nodes[0]
		if n.ext.PSync == nil {
			return
		}
		var dto struct {
			Version uint64 `json:"version"`
			BO      int64  `json:"btc_swap_out_premium_rate_ppm"`
		}
		if json.Unmarshal(o.Msg.Payload, &dto) != nil {
			return // undecodable: must not change the view
		}
		from := o.Msg.From
		if n.Pol.IsPeerSuspicious(w.Nodes[from].Pubkey) {
			return
		}
		r := m.ref[from]
		if r == nil {
			r = &refPeer{}
			m.ref[from] = r
		}
		if r.has && dto.Version < r.version {
			// a poll advertising a lower protocol version does not replace the stored capability
			w.Probe("C28:lower-version-poll")
		} else {
			r.version, r.rate, r.has = dto.Version, dto.BO, true
		}
		r.lastObs = o.T
		w.Probe("C28:poll-delivered")
		m.pending = append(m.pending, c28pending{at: o.T, peer: from})
	case "send":
		if o.Node != 0 || o.Msg.Type != MsgRequestPoll {
			return
		}
		n := w.Nodes[0]
		to := o.Msg.To
		if pv := n.PeerView(to); pv != nil {
			return // known peer: polls/requests follow the poll cadence, not the request limit
		}
		if n.ext.disconnected[to] || !w.connectedTo(0, to) {
			return // the rule is about unknown *connected* peers
		}
		if o.T-m.startedAt < 2*time.Second {
			return // initial sync at start-up
		}
		l := m.reqSends[to]
		if len(l) > 0 && o.T-l[len(l)-1] < 10*time.Minute-15*time.Second && !m.reconnectedSince(w, to, l[len(l)-1]) {
			w.Violate("C28", "request-poll-rate-limit", "node 0 sent request_poll to the unknown connected peer %d at %v and again at %v (request interval 10 minutes, no reconnect, not forced)", to, l[len(l)-1], o.T)
		}
		m.reqSends[to] = append(l, o.T)
		w.Probe("C28:request-to-unknown-peer")
	case "op.ext":
		// connect / disconnect
	}
	// settle pending comparisons a little after the delivery
	if len(m.pending) > 0 && o.T-m.pending[0].at > 2*time.Second {
		m.pending = nil
		m.compareAll(w, "after-poll")
	}
}

func (m *monC28) reconnectedSince(w *World, peer int, since time.Duration) bool {
	for i, op := range w.Plan.Ops {
		_ = i
		if (op.Kind == "disconnect" || op.Kind == "crash" || op.Kind == "crash-setversion") && ms(op.AtMs) >= since && (op.Kind != "disconnect" || op.Peer == peer) {
			return true
		}
	}
	return false
}

func (m *monC28) connectedThroughout(w *World, peer int, from time.Duration) bool {
	for _, op := range w.Plan.Ops {
		if op.Kind == "disconnect" && op.Peer == peer && op.Node == 0 {
			return false
		}
	}
	return w.connectedTo(0, peer)
}

func (m *monC28) compareAll(w *World, when string) {
	n := w.Nodes[0]
	if n.ext.psStore == nil {
		return
	}
	for peer, r := range m.ref {
		if !r.has {
			continue
		}
		pv := n.PeerView(peer)
		w.Probe("C28:view-compared")
		if pv == nil || pv.Capability() == nil {
			// removal is legitimate only for an expired peer that is disconnected
			if m.connectedThroughout(w, peer, r.lastObs) {
				w.Violate("C28", "connected-peer-removed:"+when, "node 0 no longer stores peer %d (last poll at %v, now %v) although the peer was connected all the time", peer, r.lastObs, w.Sim.Now())
			} else if w.Sim.Now()-r.lastObs < 30*time.Minute {
				w.Violate("C28", "peer-removed-before-expiry:"+when, "node 0 no longer stores peer %d although its last poll was only %v ago", peer, w.Sim.Now()-r.lastObs)
			} else {
				r.has = false
				w.Probe("C28:expired-disconnected-peer-removed")
			}
			continue
		}
		gotV := pv.Capability().Version().Value()
		gotR := storedBtcOut(pv)
		if gotV != r.version || gotR != r.rate {
			w.Violate("C28", "stored-capability-differs:"+when, "node 0 stores version %d / marker rate %d for peer %d, its polls say version %d / rate %d (%s)", gotV, gotR, peer, r.version, r.rate, when)
		}
		compat := n.ext.PSync.HasCompatiblePeer(w.Nodes[peer].Pubkey)
		if compat != (r.version == 7) {
			w.Violate("C28", "compatibility-verdict", "HasCompatiblePeer(%d) = %v although its stored capability has protocol version %d", peer, compat, r.version)
		}
	}
}

func (m *monC28) Final(w *World) {
	m.compareAll(w, "end")
}

func init() { _ = fmt.Sprint }
