package world

import (
	"context"
	"encoding/json"
	"fmt"
	"time"

	"github.com/elementsproject/peerswap/policy"
	"github.com/elementsproject/peerswap/premium"
	"go.etcd.io/bbolt"
)

// C28 component simulation: the real PeerSync (poller, handler, guard, store)
// with the real policy and premium stores, over a stub Lightning; no swap
// service, no chain watchers (so hours of virtual time are cheap).
func (n *Node) bootPeersyncComp(ctx context.Context) {
	w := n.w
	db, err := bbolt.Open(n.dbPath, 0o600, &bbolt.Options{NoSync: true, NoFreelistSync: true, Timeout: time.Second})
	if err != nil {
		w.Infraf("bbolt: %v", err)
		return
	}
	n.db = db
	pol, err := policy.CreateFromFile(n.policyPath)
	if err != nil {
		w.Infraf("policy: %v", err)
		return
	}
	n.Pol = pol
	ps, err := premium.NewSetting(db)
	if err != nil {
		w.Infraf("premium: %v", err)
		return
	}
	n.PS = ps
	n.Up, n.Recovered = true, true
	w.Observe(&Obs{Node: n.ID, Inc: n.inc, Kind: "boot.done"})
	// peer-sync's own Lightning adapters, where the plan asks for them: the real clightning
	// client over the simulated lightningd, or the simulated lnd's RPC client
	switch w.Plan.Scn.Adapter[n.ID] {
	case "cln":
		if _, err := n.bootCln(ctx); err != nil {
			w.Infraf("cln: %v", err)
			return
		}
	case "lnd":
		n.lnd = newFakeLnd(n)
	}
	n.startPeersync(ctx, pol, ps)
}

// ---------------------------------------------------------------------------
// C28 — peer-sync keeps an accurate, persistent view of peers.

type refPeer struct {
	version  uint64
	rate     int64
	setAt    time.Duration // delivery time of the poll the reference took version / rate from
	alt      *refPoll      // capability held when the peer was legitimately removed (expired while disconnected): the statement does not say whether a later lower-version poll meets an unknown peer or the old capability, so both outcomes are accepted until a poll of at least that version arrives
	hist     []refPoll     // every decodable poll delivered from this peer
	has      bool
	lastObs  time.Duration
	lastSeen time.Duration // last time the reference was updated
}

type monC28 struct {
	base
	ref        map[int]*refPeer            // peer -> reference view held by node 0
	reqSends   map[int][]time.Duration     // request_poll sends to peers unknown at that time
	startedAt  time.Duration
	connSince  map[int]time.Duration       // peer -> connected since (for "removed only while disconnected")
	pending    []c28pending
}

type c28pending struct {
	at   time.Duration
	peer int
}

type refPoll struct {
	at      time.Duration
	version uint64
	rate    int64
}

func (m *monC28) Name() string { return "C28" }

func (m *monC28) OnObs(w *World, o *Obs) {
	// settle pending comparisons a little after the delivery - before this observation changes
	// the reference (a poll that is being delivered right now has not been handled yet)
	if len(m.pending) > 0 && o.T-m.pending[0].at > 2*time.Second {
		m.pending = nil
		m.compareAll(w, "after-poll")
	}
	switch o.Kind {
	case "peersync.started":
		m.startedAt = o.T
		m.reqSends = map[int][]time.Duration{}
		// after a restart the stored view must equal the reference (reload unchanged)
		m.compareAll(w, "after-restart")
	case "deliver":
		if o.Node != 0 || (o.Msg.Type != MsgPoll && o.Msg.Type != MsgRequestPoll) {
			return
		}
		n := w.Nodes[0]
		if n.ext.PSync == nil {
			return
		}
		var dto struct {
			Version uint64 `json:"version"`
			BO      int64  `json:"btc_swap_out_premium_rate_ppm"`
		}
		if json.Unmarshal(o.Msg.Payload, &dto) != nil {
			return // undecodable: must not change the view
		}
		from := o.Msg.From
		if n.Pol.IsPeerSuspicious(w.Nodes[from].Pubkey) {
			return
		}
		r := m.ref[from]
		if r == nil {
			r = &refPeer{}
			m.ref[from] = r
		}
		if r.has {
			// the record may have been removed since the last comparison (legitimately: expired
			// while disconnected); what this poll meets is then an unknown peer, and a lower
			// version is stored like any first poll
			// (only this legitimate case is settled here: a record that is merely not written
			// yet - polls a few milliseconds apart - is left to the comparisons after the poll)
			if pv := n.PeerView(from); (pv == nil || pv.Capability() == nil) && !m.connectedThroughout(w, from, r.lastObs) && o.T-r.lastObs >= 30*time.Minute {
				r.alt = &refPoll{version: r.version, rate: r.rate}
				r.has = false
				w.Probe("C28:expired-disconnected-peer-removed")
			}
		}
		if r.has && dto.Version < r.version {
			// a poll advertising a lower protocol version does not replace the stored capability
			w.Probe("C28:lower-version-poll")
		} else {
			if r.alt != nil && dto.Version >= r.alt.version {
				r.alt = nil
			}
			r.version, r.rate, r.has, r.setAt = dto.Version, dto.BO, true, o.T
		}
		r.hist = append(r.hist, refPoll{o.T, dto.Version, dto.BO})
		r.lastObs = o.T
		w.Probe("C28:poll-delivered")
		m.pending = append(m.pending, c28pending{at: o.T, peer: from})
	case "send":
		if o.Node != 0 || o.Msg.Type != MsgRequestPoll {
			return
		}
		n := w.Nodes[0]
		to := o.Msg.To
		if pv := n.PeerView(to); pv != nil {
			return // known peer: polls/requests follow the poll cadence, not the request limit
		}
		if n.ext.disconnected[to] || !w.connectedTo(0, to) {
			return // the rule is about unknown *connected* peers
		}
		if o.T-m.startedAt < 2*time.Second {
			return // initial sync at start-up
		}
		l := m.reqSends[to]
		if len(l) > 0 && o.T-l[len(l)-1] < 10*time.Minute-15*time.Second && !m.reconnectedSince(w, to, l[len(l)-1]) {
			w.Violate("C28", "request-poll-rate-limit", "node 0 sent request_poll to the unknown connected peer %d at %v and again at %v (request interval 10 minutes, no reconnect, not forced)", to, l[len(l)-1], o.T)
		}
		m.reqSends[to] = append(l, o.T)
		w.Probe("C28:request-to-unknown-peer")
	case "op.ext":
		// connect / disconnect
	}
}

func (m *monC28) reconnectedSince(w *World, peer int, since time.Duration) bool {
	for i, op := range w.Plan.Ops {
		_ = i
		if (op.Kind == "disconnect" || op.Kind == "crash" || op.Kind == "crash-setversion") && ms(op.AtMs) >= since && (op.Kind != "disconnect" || op.Peer == peer) {
			return true
		}
	}
	return false
}

func (m *monC28) connectedThroughout(w *World, peer int, from time.Duration) bool {
	for _, op := range w.Plan.Ops {
		if op.Kind == "disconnect" && op.Peer == peer && op.Node == 0 {
			return false
		}
	}
	return w.connectedTo(0, peer)
}

// judgeRemoval: the node no longer stores a peer the reference knows. Removal is legitimate
// only for an expired peer that is disconnected.
func (m *monC28) judgeRemoval(w *World, peer int, r *refPeer, when string) {
	if m.connectedThroughout(w, peer, r.lastObs) {
		w.Violate("C28", "connected-peer-removed:"+when, "node 0 no longer stores peer %d (last poll at %v, now %v) although the peer was connected all the time", peer, r.lastObs, w.Sim.Now())
	} else if w.Sim.Now()-r.lastObs < 30*time.Minute {
		w.Violate("C28", "peer-removed-before-expiry:"+when, "node 0 no longer stores peer %d although its last poll was only %v ago", peer, w.Sim.Now()-r.lastObs)
	} else {
		r.alt = &refPoll{version: r.version, rate: r.rate}
		r.has = false
		w.Probe("C28:expired-disconnected-peer-removed")
	}
}

func (m *monC28) compareAll(w *World, when string) {
	n := w.Nodes[0]
	if n.ext.psStore == nil {
		return
	}
	for peer, r := range m.ref {
		if !r.has {
			continue
		}
		pv := n.PeerView(peer)
		w.Probe("C28:view-compared")
		if pv == nil || pv.Capability() == nil {
			m.judgeRemoval(w, peer, r, when)
			continue
		}
		gotV := pv.Capability().Version().Value()
		gotR := storedBtcOut(pv)
		if r.alt != nil && gotV == r.alt.version && gotR == r.alt.rate {
			w.Probe("C28:lower-version-poll-after-expiry-kept-old-capability")
			continue
		}
		if gotV != r.version || gotR != r.rate {
			// On CLN every custommsg hook call is handled in a goroutine of its own (glightning's
			// server: `go processMsg`), so two polls of one peer that are in flight together can be
			// applied in either order. That is a defect of its own (see known findings) and gets
			// its own signature; everything else - also on CLN - is the plain one.
			if w.Plan.Scn.Adapter[0] == "cln" {
				for _, h := range r.hist {
					d := h.at - r.setAt
					if d < 0 {
						d = -d
					}
					if h.version == gotV && h.rate == gotR && d <= 50*time.Millisecond {
						when = "polls-in-flight-together:cln:" + when
						break
					}
				}
			}
			w.Violate("C28", "stored-capability-differs:"+when, "node 0 stores version %d / marker rate %d for peer %d, its polls say version %d / rate %d (%s)", gotV, gotR, peer, r.version, r.rate, when)
		}
		compat := n.ext.PSync.HasCompatiblePeer(w.Nodes[peer].Pubkey)
		if compat != (r.version == 7) {
			w.Violate("C28", "compatibility-verdict", "HasCompatiblePeer(%d) = %v although its stored capability has protocol version %d", peer, compat, r.version)
		}
	}
}

func (m *monC28) Final(w *World) {
	m.compareAll(w, "end")
}

func init() { _ = fmt.Sprint }
