package world

import "context"

func (n *Node) bootPeersyncComp(ctx context.Context) {}
