package world

import (
	"fmt"
	"io"
	"os"
	"regexp"
	"sort"
	"strings"

)

// Race-detector builds (C19): the Go race runtime writes its reports to
// $VERIF_RACELOG.<pid> (GORACE=log_path=...). After every run the new part of
// that file is parsed; a report counts when both conflicting accesses were
// made by code of the system under test (the harness's own memory is
// serialised by the scheduler, not by locks the detector can see, and is not
// judged).

var raceLogBase = os.Getenv("VERIF_RACELOG")
var raceOff int64

const repoMod = "github.com/elementsproject/peerswap/"

type raceAccess struct {
	kind   string
	goid   int64    // 0: main goroutine
	frames []string // "func @ file:line"
}

var raceHead = regexp.MustCompile(`^(Read|Write|Previous read|Previous write|Atomic read|Atomic write|Previous atomic read|Previous atomic write) at 0x[0-9a-f]+ by (main goroutine|goroutine \d+):`)

func parseRaceReports(s string) [][2]raceAccess {
	var out [][2]raceAccess
	for _, blk := range strings.Split(s, "==================") {
		if !strings.Contains(blk, "WARNING: DATA RACE") {
			continue
		}
		var accs []raceAccess
		var cur *raceAccess
		lines := strings.Split(blk, "\n")
		for i := 0; i < len(lines); i++ {
			ln := lines[i]
			if m := raceHead.FindStringSubmatch(ln); m != nil {
				accs = append(accs, raceAccess{kind: m[1]})
				cur = &accs[len(accs)-1]
				continue
			}
			if strings.TrimSpace(ln) == "" || strings.HasPrefix(ln, "Goroutine ") {
				cur = nil
				continue
			}
			if cur != nil && strings.HasPrefix(ln, "  ") && !strings.HasPrefix(ln, "      ") {
				fn := strings.TrimSpace(ln)
				loc := ""
				if i+1 < len(lines) && strings.HasPrefix(lines[i+1], "      ") {
					loc = strings.Fields(strings.TrimSpace(lines[i+1]))[0]
					i++
				}
				cur.frames = append(cur.frames, fn+" @ "+loc)
			}
		}
		if len(accs) >= 2 {
			out = append(out, [2]raceAccess{accs[0], accs[1]})
		}
	}
	return out
}

// owner returns the function of the system under test that made the access, or
// "" if the access was made by (or on behalf of) harness/simulator code.
func (a *raceAccess) owner() string {
	for _, f := range a.frames {
		fn := strings.SplitN(f, " @ ", 2)[0]
		switch {
		case strings.Contains(fn, "verifharness/"), strings.Contains(fn, repoMod+"verifsim/"):
			return ""
		case strings.HasPrefix(fn, repoMod):
			fn = strings.TrimPrefix(fn, repoMod)
			if i := strings.LastIndex(fn, "("); i > 0 {
				fn = fn[:i]
			}
			return fn
		}
	}
	return ""
}

func (a *raceAccess) unwinding() bool {
	for _, f := range a.frames {
		if strings.HasPrefix(f, "runtime.Goexit") {
			return true
		}
	}
	return false
}

// node names the simulated node whose goroutine made the access ("" if the
// goroutine is not one of the system under test): rt runs every task below a
// frame callNode<k>.
func (a *raceAccess) node() string {
	for _, f := range a.frames {
		if i := strings.Index(f, "verifsim/rt.callNode"); i >= 0 {
			rest := f[i+len("verifsim/rt.callNode"):]
			if j := strings.Index(rest, "("); j > 0 {
				return rest[:j]
			}
		}
	}
	return ""
}

func collectRaces(res *Result) {
	if raceLogBase == "" {
		return
	}
	f, err := os.Open(fmt.Sprintf("%s.%d", raceLogBase, os.Getpid()))
	if err != nil {
		return
	}
	defer f.Close()
	if _, err := f.Seek(raceOff, 0); err != nil {
		return
	}
	data, _ := io.ReadAll(f)
	raceOff += int64(len(data))
	if res.Probes == nil {
		res.Probes = map[string]int{}
	}
	seen := map[string]bool{}
	for _, rep := range parseRaceReports(string(data)) {
		// an access made while a killed task unwinds (the simulated crash ends a task with
		// runtime.Goexit, so its deferred functions run, and the dying task's lock calls do not
		// wait): the process would be gone at that point, nothing it touches is judged
		if rep[0].unwinding() || rep[1].unwinding() {
			res.Probes["C19:report-during-simulated-kill"]++
			continue
		}
		a, b := rep[0].owner(), rep[1].owner()
		if a == "" || b == "" {
			res.Probes["C19:report-involving-harness"]++
			continue
		}
		// both accesses by goroutines of the same simulated node: two nodes share
		// package-level variables only because they share this process
		na, nb := rep[0].node(), rep[1].node()
		if na == "" || nb == "" || na != nb {
			res.Probes["C19:report-across-nodes-or-by-harness"]++
			continue
		}
		res.Probes["C19:report-in-system"]++
		pair := []string{a, b}
		sort.Strings(pair)
		sig := "race:" + pair[0] + "|" + pair[1]
		if seen[sig] {
			continue
		}
		seen[sig] = true
		top := func(x raceAccess) string {
			// the frames of the system under test (library frames in between are
			// noise here), outermost last
			var fs []string
			for _, f := range x.frames {
				if strings.HasPrefix(f, repoMod) && !strings.Contains(f, "verifsim/") {
					f = strings.TrimPrefix(f, repoMod)
					if i := strings.Index(f, " @ "); i > 0 {
						loc := f[i+3:]
						if j := strings.LastIndex(loc, "/"); j >= 0 {
							loc = loc[j+1:]
						}
						f = f[:i] + "@" + loc
					}
					fs = append(fs, f)
				}
			}
			if len(fs) > 10 {
				fs = fs[:10]
			}
			return x.kind + ": " + strings.Join(fs, " <- ")
		}
		res.Violations = append(res.Violations, Violation{Prop: "C19", Sig: "C19:" + sig, Detail: "unsynchronised accesses: " + top(rep[0]) + " || " + top(rep[1]), Step: res.Steps, T: res.End})
	}
}
