package world

import (
	"bytes"
	"github.com/elementsproject/peerswap/verifsim/rt"
	"encoding/json"
	"fmt"
	"strings"
	"time"
)

// negotiatedFromRec rebuilds what was agreed on the wire from a node's own record.
func negotiatedFromRec(w *World, r *Rec) *Negotiated {
	req, ag := r.Request(), r.Agreement()
	if req == nil || ag == nil {
		return nil
	}
	n := &Negotiated{Chain: r.Chain(), Version: req.ProtocolVersion}
	if r.IsSwapIn() {
		n.MakerPub, n.TakerPub = req.Pubkey, ag.Pubkey
		n.OpeningSat = uint64(int64(req.Amount) + ag.Premium)
		n.ClaimSat = req.Amount
	} else {
		n.TakerPub, n.MakerPub = req.Pubkey, ag.Pubkey
		n.OpeningSat = req.Amount
		n.ClaimSat = uint64(int64(req.Amount) + ag.Premium)
	}
	if a := w.liquidAssetHex(); len(a) == 66 {
		n.PolicyAsset = mustHex(a)[1:]
	}
	return n
}

func mustHex(s string) []byte {
	b := make([]byte, len(s)/2)
	for i := 0; i < len(b); i++ {
		fmt.Sscanf(s[2*i:2*i+2], "%02x", &b[i])
	}
	return b
}

// ---------------------------------------------------------------------------
// C01 — taker pays only for a validated, confirmed opening output.

type monC01 struct{ base }

func (m *monC01) Name() string { return "C01" }

func (m *monC01) OnObs(w *World, o *Obs) {
	if o.Kind != "htlc.add" || o.Pay == nil || o.Pay.Fn != "RebalancePayment" || !isReal(w, o.Node) {
		return
	}
	si := m.tr.ByClaimHash(o.Node, o.Pay.Hash)
	var r *Rec
	if si != nil {
		r = w.FreshRec(o.Node, si.ID)
		if r == nil {
			r = si.Rec
		}
	}
	if r == nil || r.Data.OpeningTxBroadcasted == nil {
		w.Violate("C01", "paid-without-opening-record", "node %d paid invoice %.8s that belongs to no swap with an announced opening transaction", o.Node, o.Pay.Hash)
		return
	}
	w.Probe("C01:claim-payment-checked")
	ann := r.Data.OpeningTxBroadcasted
	neg := negotiatedFromRec(w, r)
	if neg == nil {
		w.Violate("C01", "paid-without-agreement", "node %d paid the claim invoice of swap %.8s without a stored request/agreement", o.Node, r.SwapID)
		return
	}
	c := w.BTC
	need := uint32(3)
	if neg.Chain == "lbtc" {
		c, need = w.LBTC, 2
	}
	sigBase := fmt.Sprintf("%s:", neg.Chain)
	if conf := c.Confirmations(ann.TxID); conf < need {
		w.Violate("C01", sigBase+"paid-before-depth", "node %d paid the claim invoice of swap %.8s while the announced opening tx %.12s has %d confirmations (need %d)", o.Node, r.SwapID, ann.TxID, conf, need)
		return
	}
	tx := c.Txs[ann.TxID]
	ok, _, why := OpeningTruth(neg, tx.Hex, o.Pay.Hash, ann.BlindingKey)
	if !ok {
		w.Violate("C01", sigBase+"paid-for-invalid-opening:"+strings.ReplaceAll(why, " ", "_"), "node %d paid the claim invoice of swap %.8s although the announced transaction %.12s has no correct opening output (%s)", o.Node, r.SwapID, ann.TxID, why)
		return
	}
	b, err := DecodePayreqBody(o.Pay.Payreq)
	if err != nil || b.A != neg.ClaimSat*1000 {
		amt := uint64(0)
		if b != nil {
			amt = b.A
		}
		w.Violate("C01", sigBase+"paid-wrong-invoice-amount", "node %d paid %d msat for swap %.8s, negotiated claim amount is %d sat", o.Node, amt, r.SwapID, neg.ClaimSat)
		return
	}
	w.Probe("C01:paid-valid-opening")
}

func (m *monC01) Final(w *World) {
	// negative control bookkeeping: how many invalid openings were (rightly) not paid
	if w.Adv == nil {
		return
	}
	for id, op := range w.Adv.Openings() {
		if !op.Valid || !op.InvoiceOK {
			paid := false
			for _, p := range w.LN.Payments {
				if p.Payer != w.Adv.ID && p.Fn == "RebalancePayment" && w.LN.Invoices[p.Hash] != nil && w.LN.Invoices[p.Hash].Label == id {
					paid = true
				}
			}
			if !paid {
				w.Probe("C01:invalid-opening-not-paid")
			}
		}
	}
}

// ---------------------------------------------------------------------------
// C05 — Bitcoin claim HTLC always expires before the maker can refund via CSV.

type monC05 struct{ base }

func (m *monC05) Name() string { return "C05" }

func (m *monC05) OnObs(w *World, o *Obs) {
	if o.Kind != "htlc.add" || o.Pay == nil || o.Pay.Fn != "RebalancePayment" || !isReal(w, o.Node) {
		return
	}
	si := m.tr.ByClaimHash(o.Node, o.Pay.Hash)
	if si == nil || si.Rec.Chain() != "btc" || si.Rec.Data.OpeningTxBroadcasted == nil {
		return
	}
	confH, ok := w.BTC.ConfHeight(si.Rec.Data.OpeningTxBroadcasted.TxID)
	if !ok {
		return // C01 territory
	}
	var pm *Payment
	for _, p := range w.LN.PaymentsFor(o.Node, o.Pay.Hash) {
		if p.Idx == o.Pay.Idx {
			pm = p
		}
	}
	if pm == nil {
		return
	}
	w.Probe("C05:btc-claim-payment-checked")
	payH := o.Pay.BtcHeight
	expiry := uint64(payH) + uint64(pm.Permitted)
	refund := uint64(confH) + 1008
	margin := int64(refund) - int64(expiry)
	if margin < 20 {
		w.Probe("C05:margin-below-20")
	}
	if expiry >= refund {
		b, _ := DecodePayreqBody(o.Pay.Payreq)
		// Was the payment made inside the window the taker itself measures (first
		// recorded start height + CSV/2)? Then the overlap comes from how the window,
		// the accepted invoice CLTV and the route padding add up (and from openings
		// confirmed before the taker's start); otherwise the taker left its own window.
		bucket := "within-own-window"
		first := uint32(0)
		for _, x := range w.Obs {
			if x.Kind == "store.write" && x.Node == o.Node && x.Store.SwapID == si.ID && x.Store.Raw != nil {
				if r := DecodeRec(x.Store.Raw); r != nil && r.Data.StartingBlockHeight != 0 {
					first = r.Data.StartingBlockHeight
					break
				}
			}
		}
		if first == 0 || payH > first+504 {
			bucket = "outside-own-window"
		}
		if b != nil && int64(pm.Permitted) > b.C+4 {
			// a different mechanism than the window arithmetic: the request / route permits more
			// than the invoice's final CLTV plus the back-end's padding (CLN +1, LND +3+1), e.g.
			// because something else in the invoice was added to the route's delay
			bucket = "route-permits-more-than-invoice-cltv-plus-padding"
		}
		w.Violate("C05", fmt.Sprintf("htlc-can-outlive-csv:%s:%s", bucket, w.Nodes[o.Node].Flavor), "node %d (%s) sent the claim payment of swap %.8s at height %d with a permitted route CLTV of %d (invoice final CLTV %d): the HTLC can stay open until block %d, the maker can confirm a CSV refund in block %d (opening confirmed at %d)", o.Node, w.Nodes[o.Node].Flavor, si.ID, payH, pm.Permitted, b.C, expiry, refund, confH)
	}
}

// ---------------------------------------------------------------------------
// C04 — Liquid claim payments only inside the anchored window, bounded CLTV.

type monC04 struct {
	base
	lastAttempt map[string]time.Duration // task -> time of its previous payment attempt
}

func (m *monC04) Name() string { return "C04" }

func (m *monC04) OnObs(w *World, o *Obs) {
	if o.Kind != "pay.call" || o.Pay == nil || o.Pay.Fn != "RebalancePayment" || !isReal(w, o.Node) {
		return
	}
	si := m.tr.ByClaimHash(o.Node, o.Pay.Hash)
	if si == nil || si.Rec.Chain() != "lbtc" {
		return
	}
	r := w.FreshRec(o.Node, si.ID)
	if r == nil {
		r = si.Rec
	}
	ver := r.Request().ProtocolVersion
	if ver == 6 {
		w.Violate("C04", "legacy-new-payment", "node %d created a new claim payment for legacy (protocol 6) liquid swap %.8s", o.Node, si.ID)
		return
	}
	w.Probe("C04:liquid-payment-attempt-checked")
	n := w.Nodes[o.Node]
	// the height this very task was last told (its knowledge when it decided);
	// with the electrum watcher the task reads the watcher's cached height
	h, ok := n.ServedHeightToTask(o.Task, "lbtc")
	if ok {
		// the reading must be fresh for this attempt: a height obtained before the
		// previous attempt is not knowledge about the tip any more, the node could have asked
		if m.lastAttempt == nil {
			m.lastAttempt = map[string]time.Duration{}
		}
		if at, ok2 := n.ServedAtToTask(o.Task, "lbtc"); ok2 {
			if prev, had := m.lastAttempt[o.Task]; had && at <= prev {
				w.Probe("C04:stale-height-for-retry")
				h = w.LBTC.Height()
			}
		}
		m.lastAttempt[o.Task] = o.T
	}
	sigSuffix := ""
	if !ok {
		// electrum (LWK) back-end: the task reads the watcher's cached height, which the
		// simulator cannot observe. What it can observe is which headers the electrum server
		// had pushed to this node's subscription: a header that has been waiting there for
		// two seconds is knowledge the node has, whether or not its reader got round to it
		// (no unavoidable check-then-act gap is blamed that way).
		w.Probe("C04:window-judged-by-pushed-headers-lwk")
		h = r.Data.StartingBlockHeight
		if hh, ok3 := n.ServedHeightBefore("lbtc", o.T-2*time.Second); ok3 && hh > h {
			h = hh
		}
		sigSuffix = ":lwk"
	}
	if !r.Data.AnchorSet {
		w.Violate("C04", "payment-without-anchor", "node %d attempted the claim payment of liquid swap %.8s without a stored anchor", o.Node, si.ID)
		return
	}
	a := r.Data.StartingBlockHeight
	if h >= a+60 || h < a {
		w.Violate("C04", "payment-outside-window"+sigSuffix, "node %d attempted the claim payment of liquid swap %.8s at liquid height %d (as last served to it), anchor %d, window [%d,%d)", o.Node, si.ID, h, a, a, a+60)
	}
	if h >= a+55 {
		w.Probe("C04:near-window-end")
	}
	b, err := DecodePayreqBody(o.Pay.Payreq)
	if err == nil && (b.C > 29 || b.C < 0) {
		w.Violate("C04", "invoice-cltv-above-29", "node %d attempted to pay a liquid claim invoice with final CLTV %d", o.Node, b.C)
	}
	if o.Pay.Lnd != nil {
		// tier 2: the request the real lnd adapter emitted. lnd accepts a route only if its
		// total time lock is strictly below cltv_limit, so the request permits cltv_limit-1
		// blocks; 0 means "lnd's own maximum" (2016 blocks)
		w.Probe("C04:lnd-request-checked")
		permits := int64(o.Pay.Lnd.CltvLimit) - 1
		if o.Pay.Lnd.CltvLimit <= 0 {
			permits = 2016
		}
		if permits > 32 {
			w.Violate("C04", fmt.Sprintf("route-limit-%d", permits), "node %d emitted a liquid claim payment request that permits a total route CLTV of %d blocks (cltv_limit %d), the maximum is 32", o.Node, permits, o.Pay.Lnd.CltvLimit)
		}
		return
	}
	if o.Pay.Cln != nil {
		// tier 3: the route the real clightning adapter handed to sendpay; lightningd sends the
		// HTLC with exactly this delay, so the route's delay is the total the request permits
		w.Probe("C04:cln-route-checked")
		if o.Pay.Cln.Delay > 32 {
			w.Violate("C04", fmt.Sprintf("route-limit-%d", o.Pay.Cln.Delay), "node %d sent a liquid claim payment along a route with a total CLTV delay of %d blocks, the maximum is 32", o.Node, o.Pay.Cln.Delay)
		}
		return
	}
	if o.Pay.MaxCLTV != 32 {
		w.Violate("C04", fmt.Sprintf("route-limit-%d", o.Pay.MaxCLTV), "node %d attempted a liquid claim payment with a total route CLTV limit of %d (must be 32)", o.Node, o.Pay.MaxCLTV)
	}
}

// ---------------------------------------------------------------------------
// Reference premium (C12, C27): peer-specific rate, else stored default, else built-in default.

var builtinPPM = map[string]int64{"btc/in": 0, "btc/out": 2000, "lbtc/in": 0, "lbtc/out": 1000}

type RefPremium struct {
	def  map[string]int64 // chain/op
	peer map[string]int64 // peer/chain/op
}

func NewRefPremium(w *World, node int) *RefPremium {
	rp := &RefPremium{def: map[string]int64{}, peer: map[string]int64{}}
	if r := w.Plan.Scn.PremiumPPM[node]; len(r) == 4 {
		rp.def["btc/in"], rp.def["btc/out"], rp.def["lbtc/in"], rp.def["lbtc/out"] = r[0], r[1], r[2], r[3]
	}
	return rp
}

func (rp *RefPremium) Rate(peer, chain, op string) int64 {
	if v, ok := rp.peer[peer+"/"+chain+"/"+op]; ok {
		return v
	}
	if v, ok := rp.def[chain+"/"+op]; ok {
		return v
	}
	return builtinPPM[chain+"/"+op]
}

func (rp *RefPremium) Compute(peer, chain, op string, amount uint64) int64 {
	return int64(amount) * rp.Rate(peer, chain, op) / 1_000_000
}

func (rp *RefPremium) Apply(o *Op, peerPub string) {
	chain := "btc"
	if o.Chain == "lbtc" {
		chain = "lbtc"
	}
	op := "in"
	if o.Colon {
		op = "out"
	}
	switch o.Kind {
	case "premium-set":
		rp.peer[peerPub+"/"+chain+"/"+op] = o.N
	case "premium-setdefault":
		rp.def[chain+"/"+op] = o.N
	case "premium-delete":
		delete(rp.peer, peerPub+"/"+chain+"/"+op)
	}
}

// ---------------------------------------------------------------------------
// C12 — neither side pays more than it agreed to.

type monC12 struct {
	base
	rp [2]*RefPremium
}

func (m *monC12) Name() string { return "C12" }

func (m *monC12) ref(w *World, node int) *RefPremium {
	if m.rp[node] == nil {
		m.rp[node] = NewRefPremium(w, node)
	}
	return m.rp[node]
}

func ownFeeEstimate(w *World, node int, chain string) uint64 {
	if chain == "btc" {
		kw := w.Plan.Scn.BtcFeePerKw[node]
		if w.Nodes[node].ext.maxFeeKw > kw {
			kw = w.Nodes[node].ext.maxFeeKw
		}
		if kw < 253 {
			kw = 253
		}
		return uint64(float64(kw*4) / 1000 * 350)
	}
	return uint64(w.Plan.Scn.LiquidFeeRate[node] * 750 / 1000)
}

func (m *monC12) OnObs(w *World, o *Obs) {
	switch o.Kind {
	case "op.result":
		// premium operator ops keep the reference in step
		idx := int(o.Num)
		if idx >= 0 && idx < len(w.Plan.Ops) && strings.HasPrefix(w.Plan.Ops[idx].Kind, "premium-") && strings.HasSuffix(o.Str, "|") {
			op := w.Plan.Ops[idx]
			m.ref(w, o.Node).Apply(&op, NodePubkey(op.Peer))
		}
	case "pay.call":
		if !isReal(w, o.Node) || o.Pay == nil || o.Pay.Fn != "PayInvoiceViaChannel" {
			return
		}
		if b, err := DecodePayreqBody(o.Pay.Payreq); err == nil {
			for _, si := range m.tr.Swaps[o.Node] {
				if si.Rec != nil && si.Rec.Data.SwapOutAgreement != nil && si.Rec.Data.SwapOutAgreement.Payreq == o.Pay.Payreq {
					est := ownFeeEstimate(w, o.Node, si.Rec.Chain())
					w.Probe("C12:fee-attempt-checked")
					if b.A/1000 > 3*est {
						w.Violate("C12", "fee-attempt-above-3x-estimate", "node %d tried to pay a fee invoice of %d msat, its own opening-fee estimate is %d sat", o.Node, b.A, est)
					}
				}
			}
		}
	case "htlc.add":
		if !isReal(w, o.Node) || o.Pay == nil {
			return
		}
		b, err := DecodePayreqBody(o.Pay.Payreq)
		if err != nil {
			return
		}
		switch o.Pay.Fn {
		case "PayInvoiceViaChannel":
			// fee invoice of a swap-out we initiated
			var r *Rec
			for _, si := range m.tr.Swaps[o.Node] {
				if si.Rec != nil && si.Rec.Data.SwapOutAgreement != nil && si.Rec.Data.SwapOutAgreement.Payreq == o.Pay.Payreq {
					r = si.Rec
				}
			}
			if r == nil {
				w.Violate("C12", "fee-paid-for-unknown-swap", "node %d paid a fee invoice that belongs to none of its swaps", o.Node)
				return
			}
			w.Probe("C12:fee-payment-checked")
			est := ownFeeEstimate(w, o.Node, r.Chain())
			if b.A/1000 > 3*est {
				w.Violate("C12", "fee-above-3x-estimate", "node %d paid a fee invoice of %d sat, its own opening-fee estimate is %d sat", o.Node, b.A/1000, est)
			}
			ch := w.LN.channel(o.Pay.Scid)
			if ch != nil {
				// balance before this HTLC was deducted
				if ch.spendable(o.Node)+b.A < r.Request().Amount*1000+b.A {
					w.Violate("C12", "fee-paid-without-capacity", "node %d paid the fee invoice although the channel cannot carry amount+fee", o.Node)
				}
			}
		case "RebalancePayment":
			si := m.tr.ByClaimHash(o.Node, o.Pay.Hash)
			if si == nil {
				return
			}
			r := si.Rec
			req, ag := r.Request(), r.Agreement()
			if req == nil || ag == nil {
				return
			}
			w.Probe("C12:claim-payment-checked")
			want := req.Amount * 1000
			if !r.IsSwapIn() {
				want = uint64(int64(req.Amount)+ag.Premium) * 1000
				if r.Role == 1 && ag.Premium > req.PremiumLimit {
					w.Violate("C12", "premium-above-limit:swap-out", "node %d paid a claim invoice with premium %d above its limit %d", o.Node, ag.Premium, req.PremiumLimit)
				}
			}
			if b.A != want {
				w.Violate("C12", "claim-amount-mismatch", "node %d paid %d msat for the claim invoice of swap %.8s, agreed is %d msat", o.Node, b.A, si.ID, want)
			}
		}
	case "wallet.opening":
		if !isReal(w, o.Node) {
			return
		}
		c := w.BTC
		if o.Tx.Chain == "lbtc" {
			c = w.LBTC
		}
		for _, so := range c.SwapByTx(o.Tx.TxID) {
			// "locks exactly amount plus premium": every output this node has paid to the same swap
			// script counts (a wallet that funds and broadcasts again after an error it took for a
			// rejection locks the amount twice)
			var total uint64
			cnt := 0
			for _, k := range rt.SortedKeys(c.Swaps) {
				if x := c.Swaps[k]; x.Owner == o.Node && len(so.PkScript) > 0 && bytes.Equal(x.PkScript, so.PkScript) {
					total += x.Amount
					cnt++
				}
			}
			if cnt > 1 {
				w.Violate("C12", "locked-more-than-once:"+o.Tx.Chain, "node %d has paid %d outputs (%d sat in total) to the script of one swap; the opening of %.12s alone is %d sat", o.Node, cnt, total, o.Tx.TxID, so.Amount)
			}
			inv := w.LN.Invoices[so.PayHash]
			if inv == nil {
				continue
			}
			si := m.tr.Get(o.Node, inv.Label)
			if si == nil || si.Rec == nil || si.Rec.Request() == nil || si.Rec.Agreement() == nil {
				continue
			}
			r := si.Rec
			req, ag := r.Request(), r.Agreement()
			w.Probe("C12:funding-checked")
			if r.IsSwapIn() {
				if so.Amount != uint64(int64(req.Amount)+ag.Premium) {
					w.Violate("C12", "swap-in-funding-amount", "node %d locked %d sat, agreed amount+premium is %d", o.Node, so.Amount, int64(req.Amount)+ag.Premium)
				}
				if ag.Premium > req.PremiumLimit {
					w.Violate("C12", "premium-above-limit:swap-in", "node %d locked funds for a swap-in with premium %d above its limit %d", o.Node, ag.Premium, req.PremiumLimit)
				}
				if inv.AmountMsat != req.Amount*1000 {
					w.Violate("C12", "swap-in-invoice-amount", "node %d requested %d msat over lightning, agreed is %d sat", o.Node, inv.AmountMsat, req.Amount)
				}
			} else if so.Amount != req.Amount {
				w.Violate("C12", "swap-out-funding-amount", "node %d locked %d sat for a swap-out of %d", o.Node, so.Amount, req.Amount)
			}
		}
	case "send":
		if !isReal(w, o.Node) || (o.Msg.Type != MsgSwapInAgreement && o.Msg.Type != MsgSwapOutAgreement) {
			return
		}
		var ag RecAgreement
		if json.Unmarshal(o.Msg.Payload, &ag) != nil {
			return
		}
		r := w.FreshRec(o.Node, o.Msg.SwapID)
		if r == nil || r.Request() == nil {
			return
		}
		op := "out"
		if o.Msg.Type == MsgSwapInAgreement {
			op = "in"
		}
		want := m.ref(w, o.Node).Compute(r.Data.PeerNodeID, r.Chain(), op, r.Request().Amount)
		w.Probe("C12:responder-premium-checked")
		if ag.Premium != want {
			w.Violate("C12", "responder-premium:"+r.Chain()+"/"+op, "node %d charges premium %d for %d sat (%s swap-%s), its configured rate gives %d", o.Node, ag.Premium, r.Request().Amount, r.Chain(), op, want)
		}
	}
}

// ---------------------------------------------------------------------------
// C02 — the opening script is spendable only as specified.

type monC02 struct{ base }

func (m *monC02) Name() string { return "C02" }

func (m *monC02) OnObs(w *World, o *Obs) {
	if o.Kind == "lab.spend" {
		// script laboratory: the expectation already contains BIP68 for the attempt's version
		f := strings.Split(o.Str, "|")
		if len(f) < 7 {
			return
		}
		expect, got := strings.TrimPrefix(f[3], "expect="), strings.TrimPrefix(f[4], "got=")
		w.Probe("C02:verdict:" + expect)
		if expect != got {
			w.Violate("C02", fmt.Sprintf("script-verdict:lab:%s:expected-%s", f[0], expect), "script laboratory (%s): witness [%s] with %s at output %s was %sed by the script engine, the specification says %s (%s)", f[5], f[0], f[1], f[2], got, expect, f[6])
		}
		return
	}
	if o.Kind != "adv.spend" {
		return
	}
	f := strings.Split(o.Str, "|")
	if len(f) < 5 {
		return
	}
	wit, seqS, depthS, expect, got := f[0], f[1], f[2], strings.TrimPrefix(f[3], "expect="), strings.TrimPrefix(f[4], "got=")
	var seq int64
	var depth int
	fmt.Sscanf(seqS, "seq=%d", &seq)
	fmt.Sscanf(depthS, "depth=%d", &depth)
	// RefScript: which witness shapes satisfy the script is in `expect`; add BIP68.
	if expect == "accept" {
		s := uint32(seq)
		if bip68ok(2, s, uint32(depth)) != nil {
			expect = "reject"
		}
	}
	w.Probe("C02:verdict:" + expect)
	if expect != got {
		errS := ""
		if len(f) > 5 {
			errS = f[5]
		}
		w.Violate("C02", fmt.Sprintf("script-verdict:%s:expected-%s", wit, expect), "spend attempt %q (sequence %d, output depth %d) was %sed by the script engine, the specification says %s (%s)", wit, seq, depth, got, expect, errS)
	}
}
