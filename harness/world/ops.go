package world

import (
	"context"
	"errors"

	"github.com/elementsproject/peerswap/premium"
)

// doPolicyOp performs operator actions on policy and premium settings (task context).
func (w *World) doPolicyOp(n *Node, op *Op) error {
	peer := NodePubkey(op.Peer)
	if op.Arg != "" && op.Arg != "peer" {
		peer = op.Arg
	}
	switch op.Kind {
	case "policy-allow":
		return n.Pol.AddToAllowlist(peer)
	case "policy-unallow":
		return n.Pol.RemoveFromAllowlist(peer)
	case "policy-suspect":
		return n.Pol.AddToSuspiciousPeerList(peer)
	case "policy-unsuspect":
		return n.Pol.RemoveFromSuspiciousPeerList(peer)
	case "policy-disable":
		return n.Pol.DisableSwaps()
	case "policy-enable":
		return n.Pol.EnableSwaps()
	case "policy-reload":
		return n.Pol.ReloadFile()
	case "premium-set", "premium-setdefault", "premium-delete":
		asset := premium.BTC
		if op.Chain == "lbtc" {
			asset = premium.LBTC
		}
		oper := premium.SwapIn
		if op.Colon {
			oper = premium.SwapOut
		}
		switch op.Kind {
		case "premium-delete":
			return n.PS.DeleteRate(context.Background(), peer, asset, oper)
		}
		r, err := premium.NewPremiumRate(asset, oper, premium.NewPPM(op.N))
		if err != nil {
			return err
		}
		if op.Kind == "premium-setdefault" {
			return n.PS.SetDefaultRate(context.Background(), r)
		}
		return n.PS.SetRate(context.Background(), peer, r)
	}
	return errors.New("unknown op " + op.Kind)
}
