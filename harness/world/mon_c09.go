package world

import (
	"bytes"
	"fmt"
)

// C09 — a swap is affected only by its own counterparty, with its id, in an
// acceptable state; swap ids cannot be reused.

type c09msg struct {
	idx     int
	from    int
	typ     int
	id      string
	class   string            // "", foreign, id-reuse, never-received-kind, terminal, second-one-shot
	before  map[string][]byte // records of the receiving node before handling
	payload []byte
}

type monC09 struct {
	base
	inflight map[string]*c09msg // handler task id -> message being handled
	pending  map[int]*c09msg    // delivery idx -> classified message (deliver seen, handling not yet)
	reqIdx   map[int]string     // delivery idx of every request -> its swap id
	reqTask  map[string]string  // handler task -> swap id of the request it handles
}

func (m *monC09) Name() string { return "C09" }

// classify decides, from ground truth at delivery time, whether the message
// is one that must not change anything ("" = may change the swap; not judged).
func (m *monC09) classify(w *World, node int, mo *MsgObs) string {
	n := w.Nodes[node]
	raw := n.RawRecord(mo.SwapID)
	rec := DecodeRec(raw)
	isRequest := mo.Type == MsgSwapInRequest || mo.Type == MsgSwapOutRequest
	if rec == nil {
		return "" // unknown id: a fresh request (C11) or a message for nothing
	}
	if isRequest {
		return "id-reuse"
	}
	if w.Nodes[mo.From].Pubkey != rec.Data.PeerNodeID {
		return "foreign"
	}
	if rec.Terminal() {
		return "terminal"
	}
	switch mo.Type {
	case MsgOpeningTx:
		if rec.IsMaker() {
			return "never-received-kind"
		}
		if o := rec.Data.OpeningTxBroadcasted; o != nil {
			return "second-one-shot"
		}
	case MsgCoopClose:
		if rec.IsTaker() {
			return "never-received-kind"
		}
	case MsgSwapInAgreement, MsgSwapOutAgreement:
		if rec.Role == 2 {
			return "never-received-kind"
		}
		if (mo.Type == MsgSwapInAgreement) != rec.IsSwapIn() {
			return "never-received-kind"
		}
		if rec.Agreement() != nil {
			return "second-one-shot"
		}
	}
	return ""
}

func (m *monC09) OnObs(w *World, o *Obs) {
	switch o.Kind {
	case "deliver":
		if !isReal(w, o.Node) || o.Msg.Type < MsgSwapInRequest || o.Msg.Type > MsgCoopClose || o.Msg.Type%2 == 0 {
			return
		}
		if o.Msg.Type == MsgSwapInRequest || o.Msg.Type == MsgSwapOutRequest {
			if m.reqIdx == nil {
				m.reqIdx, m.reqTask = map[int]string{}, map[string]string{}
			}
			m.reqIdx[o.Msg.Idx] = o.Msg.SwapID
		}
		class := m.classify(w, o.Node, o.Msg)
		if class == "" {
			return
		}
		w.Probe("C09:delivered:" + class)
		if m.pending == nil {
			m.pending = map[int]*c09msg{}
		}
		m.pending[o.Msg.Idx] = &c09msg{idx: o.Msg.Idx, from: o.Msg.From, typ: o.Msg.Type, id: o.Msg.SwapID, class: class, before: w.Nodes[o.Node].AllRaw(), payload: o.Msg.Payload}
	case "handling":
		if id, ok := m.reqIdx[int(o.Num)]; ok {
			delete(m.reqIdx, int(o.Num))
			m.reqTask[o.Task] = id
		}
		if c := m.pending[int(o.Num)]; c != nil {
			delete(m.pending, int(o.Num))
			// refresh the snapshot: other handlers may have run since delivery
			c.before = w.Nodes[o.Node].AllRaw()
			m.inflight[o.Task] = c
		}
	case "handled":
		delete(m.inflight, o.Task)
		if id, ok := m.reqTask[o.Task]; ok {
			delete(m.reqTask, o.Task)
			// whatever became of this request (admitted, refused as a duplicate, refused for any
			// other reason): a swap of that id that this node holds a live record of must still be
			// registered with the service - a refused copy must not take the live swap down
			n := w.Nodes[o.Node]
			if n.Up && n.Recovered && n.Svc != nil && n.inc == o.Inc {
				if rec := DecodeRec(n.RawRecord(id)); rec != nil && !rec.Terminal() {
					w.Probe("C09:registration-checked")
					if _, err := n.Svc.GetActiveSwap(id); err != nil {
						w.Violate("C09", "live-swap-unregistered-after-request:"+shortState(rec.Current), "node %d: after handling a request with id %.8s the swap of that id (record state %s) is no longer registered with the swap service: %v", o.Node, id, rec.Current, err)
					}
				}
			}
		}
	case "store.write":
		c := m.inflight[o.Task]
		if c == nil || o.Store.Raw == nil {
			return
		}
		prev := c.before[o.Store.SwapID]
		if bytes.Equal(prev, o.Store.Raw) {
			return
		}
		what := "changed"
		if prev == nil {
			what = "created"
		}
		pr := DecodeRec(prev)
		nr := DecodeRec(o.Store.Raw)
		detail := ""
		if pr != nil && nr != nil {
			detail = fmt.Sprintf("state %s -> %s, peer %.10s -> %.10s", pr.Current, nr.Current, pr.Data.PeerNodeID, nr.Data.PeerNodeID)
		}
		c.before[o.Store.SwapID] = o.Store.Raw
		w.Violate("C09", fmt.Sprintf("record-%s-by-%s-%s", what, c.class, MsgName(c.typ)), "node %d: %s message %s from node %d for swap %.8s %s the record of swap %.8s (%s)", o.Node, c.class, MsgName(c.typ), c.from, c.id, what, o.Store.SwapID, detail)
	case "send":
		c := m.inflight[o.Task]
		if c == nil {
			return
		}
		if o.Msg.Type == MsgCancel && o.Msg.SwapID == c.id && o.Msg.To == c.from {
			return
		}
		w.Violate("C09", fmt.Sprintf("reply-to-%s-%s:%s", c.class, MsgName(c.typ), MsgName(o.Msg.Type)), "node %d answered a %s %s (swap %.8s from node %d) with %s to node %d", o.Node, c.class, MsgName(c.typ), c.id, c.from, MsgName(o.Msg.Type), o.Msg.To)
	}
}
