package world

import (
	"bytes"
	"crypto/sha256"
	"encoding/binary"
	"encoding/hex"
	"errors"
	"fmt"

	"github.com/btcsuite/btcd/btcec/v2"
	"github.com/btcsuite/btcd/btcutil"
	"github.com/btcsuite/btcd/chaincfg"
	"github.com/btcsuite/btcd/chaincfg/chainhash"
	"github.com/btcsuite/btcd/txscript"
	"github.com/btcsuite/btcd/wire"
	"github.com/elementsproject/peerswap/lightning"
	"github.com/elementsproject/peerswap/onchain"
	"github.com/elementsproject/peerswap/swap"
	"github.com/elementsproject/peerswap/verifsim/rt"
)

// SimBtcWallet is the tier-1 stand-in for the Bitcoin swap.Wallet adapters
// (lnd/lnd_wallet.go, clightning/clightning_wallet.go). It funds opening
// transactions with a plan-chosen layout and builds spends with the real
// onchain.BitcoinOnChain helpers the adapters use.
type SimBtcWallet struct {
	n        *Node
	onchain  *onchain.BitcoinOnChain
	Balance  uint64
	addrSeq  int
	Scripts  map[string]bool // pkScripts of addresses handed out
	Openings []string        // txids of opening txs broadcast by this wallet
}

func newSimBtcWallet(n *Node) *SimBtcWallet {
	return &SimBtcWallet{n: n, Balance: n.w.Plan.Scn.WalletSat[n.ID], Scripts: map[string]bool{}}
}

func (b *SimBtcWallet) key(i int) *btcec.PrivateKey {
	h := sha256.Sum256([]byte(fmt.Sprintf("verifsim-btcwallet-%d-%d", b.n.ID, i)))
	k, _ := btcec.PrivKeyFromBytes(h[:])
	return k
}

func (b *SimBtcWallet) newAddr() (btcutil.Address, []byte) {
	b.addrSeq++
	pk := b.key(b.addrSeq).PubKey().SerializeCompressed()
	addr, _ := btcutil.NewAddressWitnessPubKeyHash(btcutil.Hash160(pk), &chaincfg.RegressionNetParams)
	script, _ := txscript.PayToAddrScript(addr)
	b.Scripts[hex.EncodeToString(script)] = true
	return addr, script
}

func randHash() chainhash.Hash {
	var h chainhash.Hash
	for i := 0; i < 32; i += 8 {
		binary.LittleEndian.PutUint64(h[i:], rt.RandUint64())
	}
	return h
}

func (b *SimBtcWallet) SetLabel(txID, address, label string) error {
	f := b.n.op("btcwallet.label")
	if f != nil && f.Kind == "err" {
		return errors.New("wallet rpc: label failed")
	}
	return nil
}

func (b *SimBtcWallet) CreateOpeningTransaction(p *swap.OpeningParams) (string, string, string, uint64, uint32, error) {
	n := b.n
	w := n.w
	f := n.op("btcwallet.open")
	if f != nil && f.Kind == "err" {
		return "", "", "", 0, 0, errors.New("wallet rpc: fundpsbt failed")
	}
	addr, err := b.onchain.CreateOpeningAddress(p, onchain.BitcoinCsv)
	if err != nil {
		return "", "", "", 0, 0, err
	}
	a, err := btcutil.DecodeAddress(addr, &chaincfg.RegressionNetParams)
	if err != nil {
		return "", "", "", 0, 0, err
	}
	pk, err := txscript.PayToAddrScript(a)
	if err != nil {
		return "", "", "", 0, 0, err
	}
	fee, _ := b.onchain.GetFee(200)
	if b.Balance < p.Amount+fee {
		return "", "", "", 0, 0, errors.New("insufficient funds available to construct transaction")
	}
	lay := w.Plan.Scn.Layout[n.ID]
	tx := wire.NewMsgTx(2)
	in := wire.NewTxIn(wire.NewOutPoint(ptrHash(randHash()), 0), nil, [][]byte{bytes.Repeat([]byte{0x30}, 71), b.key(0).PubKey().SerializeCompressed()})
	in.Sequence = 0xfffffffd
	tx.AddTxIn(in)
	var outs []*wire.TxOut
	if lay.Change {
		_, cs := b.newAddr()
		outs = append(outs, wire.NewTxOut(int64(b.Balance-p.Amount-fee), cs))
	}
	for i := 0; i < lay.Extra; i++ {
		_, es := b.newAddr()
		outs = append(outs, wire.NewTxOut(int64(1000+i), es))
	}
	if lay.DecoySameAmt {
		h := sha256.Sum256([]byte("decoy"))
		ds := append([]byte{0x00, 0x20}, h[:]...)
		outs = append(outs, wire.NewTxOut(int64(p.Amount), ds))
	}
	idx := lay.SwapIndex
	if idx < 0 {
		idx = 0
	}
	if idx > len(outs) {
		idx = len(outs)
	}
	swapOut := wire.NewTxOut(int64(p.Amount), pk)
	outs = append(outs[:idx], append([]*wire.TxOut{swapOut}, outs[idx:]...)...)
	for _, o := range outs {
		tx.AddTxOut(o)
	}
	if idx != 0 {
		w.Probe("layout:swap-output-not-first")
	}
	var buf bytes.Buffer
	tx.Serialize(&buf)
	rawHex := hex.EncodeToString(buf.Bytes())
	txid, err := w.BTC.Broadcast(n.ID, rawHex, "opening")
	if err != nil {
		return "", "", "", 0, 0, err
	}
	script, _ := onchain.ParamsToTxScript(p, onchain.BitcoinCsv)
	w.BTC.RegisterSwap(&SwapOutput{TxID: txid, Vout: uint32(idx), Owner: n.ID, Amount: p.Amount, Script: script, PkScript: pk, CSV: onchain.BitcoinCsv,
		TakerPub: p.TakerPubkey, MakerPub: p.MakerPubkey, PayHash: p.ClaimPaymentHash})
	b.Balance -= p.Amount + fee
	b.Openings = append(b.Openings, txid)
	if lay.Change && lay.SpendChange && idx != 0 {
		w.Sim.After(ms(45000), "wallet", "spend-change", func() { w.BTC.SpendPlain(n.ID, txid, 0) })
	}
	w.Observe(&Obs{Node: n.ID, Inc: n.inc, Kind: "wallet.opening", Str: txid, Num: int64(idx), Tx: &TxObs{Chain: "btc", TxID: txid, Hex: rawHex, Kind: "opening", Err: ackLost(f)}})
	if f != nil && f.Kind == "errafter" {
		return "", "", "", 0, 0, errors.New("wallet rpc: publish acknowledged late (timeout)")
	}
	// the adapters locate the swap output by value+script (GetVoutAndVerify)
	_, vout, err := b.onchain.GetVoutAndVerify(rawHex, p)
	if err != nil {
		return "", "", "", 0, 0, err
	}
	return rawHex, addr, txid, fee, vout, nil
}

func ptrHash(h chainhash.Hash) *chainhash.Hash { return &h }

func (b *SimBtcWallet) spend(kind string, p *swap.OpeningParams, c *swap.ClaimParams, csv uint32, fee uint64, witness func(sigHash, redeem []byte) ([][]byte, error)) (string, string, string, error) {
	n := b.n
	f := n.op("btcwallet.spend")
	if f != nil && f.Kind == "err" {
		return "", "", "", errors.New("wallet rpc unavailable")
	}
	addr, _ := b.newAddr()
	_, vout, err := b.onchain.GetVoutAndVerify(c.OpeningTxHex, p)
	if err != nil {
		return "", "", "", err
	}
	tx, sigHash, redeem, err := b.onchain.PrepareSpendingTransaction(p, c, addr.EncodeAddress(), vout, csv, fee)
	if err != nil {
		return "", "", "", err
	}
	wit, err := witness(sigHash, redeem)
	if err != nil {
		return "", "", "", err
	}
	tx.TxIn[0].Witness = wit
	var buf bytes.Buffer
	if err := tx.Serialize(&buf); err != nil {
		return "", "", "", err
	}
	rawHex := hex.EncodeToString(buf.Bytes())
	txid, err := n.w.BTC.Broadcast(n.ID, rawHex, kind)
	if err != nil {
		return "", "", "", err
	}
	if f != nil && f.Kind == "errafter" {
		return "", "", "", errors.New("wallet rpc: publish acknowledged late (timeout)")
	}
	return txid, rawHex, addr.EncodeAddress(), nil
}

func (b *SimBtcWallet) CreatePreimageSpendingTransaction(p *swap.OpeningParams, c *swap.ClaimParams) (string, string, string, error) {
	return b.spend("claim-preimage", p, c, 0, 0, func(sigHash, redeem []byte) ([][]byte, error) {
		sig, err := c.Signer.Sign(sigHash)
		if err != nil {
			return nil, err
		}
		pre, err := lightning.MakePreimageFromStr(c.Preimage)
		if err != nil {
			return nil, err
		}
		return onchain.GetPreimageWitness(sig.Serialize(), pre[:], redeem), nil
	})
}

func (b *SimBtcWallet) CreateCsvSpendingTransaction(p *swap.OpeningParams, c *swap.ClaimParams) (string, string, string, error) {
	return b.spend("claim-csv", p, c, onchain.BitcoinCsv, 0, func(sigHash, redeem []byte) ([][]byte, error) {
		sig, err := c.Signer.Sign(sigHash)
		if err != nil {
			return nil, err
		}
		return onchain.GetCsvWitness(sig.Serialize(), redeem), nil
	})
}

func (b *SimBtcWallet) CreateCoopSpendingTransaction(p *swap.OpeningParams, c *swap.ClaimParams, takerSigner swap.Signer) (string, string, string, error) {
	fee, err := b.GetRefundFee()
	if err != nil {
		return "", "", "", err
	}
	return b.spend("claim-coop", p, c, 0, fee, func(sigHash, redeem []byte) ([][]byte, error) {
		ts, err := takerSigner.Sign(sigHash)
		if err != nil {
			return nil, err
		}
		ms, err := c.Signer.Sign(sigHash)
		if err != nil {
			return nil, err
		}
		return onchain.GetCooperativeWitness(ts.Serialize(), ms.Serialize(), redeem), nil
	})
}

func (b *SimBtcWallet) GetOutputScript(p *swap.OpeningParams) ([]byte, error) {
	return b.onchain.GetOutputScript(p)
}

func (b *SimBtcWallet) NewAddress() (string, error) {
	f := b.n.op("btcwallet.newaddr")
	if f != nil && f.Kind == "err" {
		return "", errors.New("wallet rpc unavailable")
	}
	a, _ := b.newAddr()
	return a.EncodeAddress(), nil
}

func (b *SimBtcWallet) GetRefundFee() (uint64, error) { return b.onchain.GetFee(250) }

func (b *SimBtcWallet) GetFlatOpeningTXFee() (uint64, error) {
	return b.onchain.GetFee(onchain.EstimatedOpeningTxSize)
}

func (b *SimBtcWallet) GetAsset() string   { return "" }
func (b *SimBtcWallet) GetNetwork() string { return b.onchain.GetChain().Name }

func (b *SimBtcWallet) GetOnchainBalance() (uint64, error) {
	f := b.n.op("btcwallet.balance")
	if f != nil && f.Kind == "err" {
		return 0, errors.New("wallet rpc unavailable")
	}
	return b.Balance, nil
}
