package world

import (
	"encoding/json"
	"fmt"
)

// SimNet carries custom messages between nodes. Every send is an observation;
// per-message faults come from the plan.
type SimNet struct {
	w       *World
	sendIdx int
	sentBy  map[int]int
	Down    bool // partition: everything dropped
}

func newSimNet(w *World) *SimNet { return &SimNet{w: w, sentBy: map[int]int{}} }

func swapIDOf(payload []byte) string {
	var m struct {
		SwapID string `json:"swap_id"`
	}
	if json.Unmarshal(payload, &m) == nil {
		return m.SwapID
	}
	return ""
}

// Send is called by a node's messenger (or by the adversary) to transmit.
func (n *SimNet) Send(from int, toPub string, payload []byte, typ int) error {
	w := n.w
	to := -1
	for _, nd := range w.Nodes {
		if nd.Pubkey == toPub {
			to = nd.ID
		}
	}
	if to < 0 {
		return fmt.Errorf("peer %s not connected", toPub)
	}
	n.sendIdx++
	idx := n.sendIdx
	n.sentBy[from]++
	cp := append([]byte(nil), payload...)
	o := &Obs{Node: from, Inc: w.Sim.Incarnation(from), Kind: "send", Msg: &MsgObs{From: from, To: to, Type: typ, Payload: cp, Idx: idx, SwapID: swapIDOf(cp)}}
	w.Observe(o)

	if n.Down && !w.healing {
		w.Probe("net:partition-drop")
		return nil
	}
	for _, s := range w.Plan.Silence {
		if s.Node == from && n.sentBy[from] > s.After {
			w.Probe("net:silenced")
			return nil
		}
	}
	lat := ms(w.Plan.Scn.NetLatencyMs)
	dup := false
	if !w.healing {
		for _, f := range w.Plan.Net {
			if f.Idx != idx {
				continue
			}
			w.Probe("net:" + f.Kind)
			switch f.Kind {
			case "drop":
				return nil
			case "dup":
				dup = true
			case "delay":
				lat += ms(f.DelayMs)
			}
		}
	}
	deliver := func() { w.Nodes[to].deliver(from, typ, cp, idx) }
	w.Sim.After(lat, "net", fmt.Sprintf("deliver#%d %d->%d %x", idx, from, to, typ), deliver)
	w.twinRequest(from, to, typ, cp, lat)
	if dup {
		w.Sim.After(2*lat+ms(10), "net", fmt.Sprintf("deliver-dup#%d %d->%d %x", idx, from, to, typ), deliver)
	}
	return nil
}

// Inject delivers an arbitrary message to a node as coming from `from`
// (third party / junk injection); it is not counted as a send of a real node.
func (n *SimNet) Inject(from, to int, typ int, payload []byte, after int) {
	w := n.w
	cp := append([]byte(nil), payload...)
	w.Sim.After(ms(after), "net", fmt.Sprintf("inject %d->%d %x", from, to, typ), func() {
		w.Nodes[to].deliver(from, typ, cp, -1)
	})
}
