package world

import (
	"context"
	"encoding/json"
	"errors"
	"fmt"
	"math"
	"strings"

	goelectrum "github.com/checksum0/go-electrum/electrum"
	"github.com/elementsproject/glightning/jrpc2"
	"github.com/elementsproject/peerswap/lwk"
	"github.com/elementsproject/peerswap/onchain"
	"github.com/elementsproject/peerswap/swap"
	"github.com/elementsproject/peerswap/wallet"
	"github.com/vulpemventures/go-elements/network"
)

// The real lwk.LWKRpcWallet (and its JSON-RPC client) over a simulated lwk and a simulated
// electrum server. Seams: lwkclient.request (hook inserted at build time) and the
// electrum.RPC interface. PSETs are opaque tokens: the wallet never looks inside them.

type fakeLwk struct {
	n       *Node
	l       *SimLiquidWallet
	ann     map[string]*swap.OpeningParams
	psets   map[string]*lwkPset
	psetSeq int
}

type lwkPset struct {
	addr     string
	amount   uint64
	fee      uint64
	signed   bool
	errAfter bool
}

func init() {
	lwk.SimLwkTransport = func(ctx context.Context, m jrpc2.Method, resp interface{}) (bool, error) {
		n := clnNodeOfTask()
		if n == nil || n.lwk == nil {
			return true, errors.New("simulated lwk: no such node (request from outside a node task)")
		}
		return true, n.lwk.request(m, resp)
	}
}

func lwkErr(code int, msg string) error { return &jrpc2.RpcError{Code: code, Message: msg} }

func (f *fakeLwk) request(m jrpc2.Method, resp interface{}) error {
	n := f.n
	w := n.w
	raw, _ := json.Marshal(m)
	var p map[string]json.RawMessage
	json.Unmarshal(raw, &p)
	str := func(k string) string {
		var s string
		json.Unmarshal(p[k], &s)
		return s
	}
	switch m.Name() {
	case "version":
		if flt := n.lightOp("lwallet.setup"); flt != nil && flt.Kind == "err" {
			return errors.New("lwk: connection refused")
		}
		return fill(resp, map[string]interface{}{"version": "0.18.2", "network": "regtest"})
	case "wallet_details":
		if !n.lwkCreated {
			return lwkErr(-32008, "Wallet '"+str("name")+"' does not exist")
		}
		return fill(resp, map[string]interface{}{"type": "wpkh", "warnings": "", "signers": []map[string]string{{"fingerprint": "5eed5eed", "name": n.lwkSigner}}})
	case "signer_generate":
		return fill(resp, map[string]interface{}{"mnemonic": "abandon abandon abandon abandon abandon abandon abandon abandon abandon abandon abandon about"})
	case "signer_load_software":
		if n.lwkSigner != "" {
			return lwkErr(-32011, "Signer '"+str("name")+"' is already loaded")
		}
		n.lwkSigner = str("name")
		return fill(resp, map[string]interface{}{"fingerprint": "5eed5eed", "id": "5eed", "name": str("name"), "xpub": "tpub"})
	case "signer_singlesig_descriptor":
		return fill(resp, map[string]interface{}{"descriptor": "ct(slip77(00),elwpkh([5eed5eed/84'/1'/0']tpub/<0;1>/*))"})
	case "wallet_load":
		if n.lwkCreated {
			return lwkErr(-32009, "Wallet '"+str("name")+"' is already loaded")
		}
		n.lwkCreated = true
		return fill(resp, map[string]interface{}{"descriptor": str("descriptor"), "name": str("name")})
	case "wallet_address":
		a, err := f.l.GetAddress()
		if err != nil {
			return lwkErr(-32603, err.Error())
		}
		return fill(resp, map[string]interface{}{"address": a, "index": f.l.addrSeq})
	case "wallet_balance":
		b, err := f.l.GetBalance()
		if err != nil {
			return lwkErr(-32603, err.Error())
		}
		return fill(resp, map[string]interface{}{"balance": map[string]uint64{network.Regtest.AssetID: b}})
	case "wallet_set_tx_memo":
		if err := f.l.SetLabel(str("txid"), "", str("memo")); err != nil {
			return lwkErr(-32603, err.Error())
		}
		return fill(resp, map[string]interface{}{})
	case "wallet_send_many":
		flt := n.op("lwallet.open")
		if flt != nil && flt.Kind == "err" {
			return lwkErr(-32603, "lwk: wallet_send_many failed")
		}
		var req struct {
			Addressees []struct {
				Address string `json:"address"`
				Asset   string `json:"asset"`
				Satoshi uint64 `json:"satoshi"`
			} `json:"addressees"`
			FeeRate *float64 `json:"fee_rate"`
		}
		json.Unmarshal(raw, &req)
		if len(req.Addressees) != 1 {
			return lwkErr(-32602, "the simulated lwk sends to exactly one addressee")
		}
		rate := float64(100) // lwk's default: 100 sat/kvB
		if req.FeeRate != nil {
			rate = *req.FeeRate
		}
		if rate < 100 || math.IsNaN(rate) {
			return lwkErr(-32603, "Fee rate is below the minimum of 100 sat/kvB")
		}
		fee := uint64(rate * float64(onchain.EstimatedOpeningConfidentialTxSizeBytes/4) / 1000)
		if f.l.Balance < req.Addressees[0].Satoshi+fee {
			return lwkErr(-32603, "Insufficient funds")
		}
		n.mu.Lock()
		f.psetSeq++
		id := fmt.Sprintf("cHNldP8-sim-%d-%d", n.ID, f.psetSeq)
		f.psets[id] = &lwkPset{addr: req.Addressees[0].Address, amount: req.Addressees[0].Satoshi, fee: fee, errAfter: flt != nil && flt.Kind == "errafter"}
		n.mu.Unlock()
		return fill(resp, map[string]interface{}{"pset": id})
	case "signer_sign":
		if flt := n.op("lwallet.sign"); flt != nil && flt.Kind == "err" {
			return lwkErr(-32603, "lwk: signer unavailable")
		}
		n.mu.Lock()
		ps := f.psets[str("pset")]
		n.mu.Unlock()
		if ps == nil {
			return lwkErr(-32602, "Invalid PSET")
		}
		ps.signed = true
		return fill(resp, map[string]interface{}{"pset": str("pset")})
	case "wallet_broadcast":
		n.mu.Lock()
		ps := f.psets[str("pset")]
		op := f.ann[taskKey()]
		n.mu.Unlock()
		if ps == nil || !ps.signed {
			return lwkErr(-32602, "PSET is not fully signed")
		}
		var flt *Fault
		if ps.errAfter {
			flt = &Fault{Kind: "errafter"}
		}
		asset := append([]byte{1}, w.liquidAssetBytes()...)
		txid, _, err := f.l.fundAndBroadcast(ps.addr, ps.amount, asset, ps.fee, op, flt)
		if err != nil {
			return lwkErr(-32603, err.Error())
		}
		n.mu.Lock()
		delete(f.psets, str("pset"))
		n.mu.Unlock()
		if flt != nil && flt.Kind == "errafter" {
			return errors.New("lwk: request timed out")
		}
		return fill(resp, map[string]interface{}{"txid": txid})
	}
	w.Infraf("simulated lwk: method %q is not modelled", m.Name())
	return lwkErr(-32601, "Method not found")
}

// electrumWalletStub is the electrum server as the wallet uses it (fees, broadcast of spends,
// fetching the opening after lwk broadcast it); the watcher's view is electrumStub.
type electrumWalletStub struct {
	electrumStub
}

func (e *electrumWalletStub) GetFee(ctx context.Context, target uint32) (float32, error) {
	n := e.n
	if flt := n.lightOp("lwallet.fee"); flt != nil {
		switch flt.Kind {
		case "err":
			return 0, errors.New("electrum: request timeout")
		case "zero":
			return -1, nil // electrum's answer when it has no estimate
		}
	}
	return float32(float64(n.w.Plan.Scn.LiquidFeeRate[n.ID]) / 1e8), nil
}

func (e *electrumWalletStub) BroadcastTransaction(ctx context.Context, rawTx string) (string, error) {
	n := e.n
	flt := n.op("lwallet.sendraw")
	if flt != nil && flt.Kind == "err" {
		return "", errors.New("electrum: request timeout")
	}
	txid, err := e.c.Broadcast(n.ID, rawTx, "spend")
	if err != nil {
		code := -25
		if strings.Contains(err.Error(), "min relay fee") {
			code = -26
		}
		b, _ := json.Marshal(map[string]interface{}{"code": code, "message": err.Error()})
		return "", fmt.Errorf("blockchain.transaction.broadcast RPC error: %s", b)
	}
	if flt != nil && flt.Kind == "errafter" {
		return "", errors.New("electrum: request timeout")
	}
	return txid, nil
}

var _ = goelectrum.SubscribeHeadersResult{}

// lwkShim forwards every wallet call and notes which opening a CreateAndBroadcastTransaction belongs to.
type lwkShim struct {
	n *Node
	f *fakeLwk
	w *lwk.LWKRpcWallet
}

func (s *lwkShim) GetAddress() (string, error)                      { return s.w.GetAddress() }
func (s *lwkShim) SendToAddress(a string, v uint64) (string, error) { return s.w.SendToAddress(a, v) }
func (s *lwkShim) GetBalance() (uint64, error)                      { return s.w.GetBalance() }
func (s *lwkShim) SendRawTx(rawTx string) (string, error)           { return s.w.SendRawTx(rawTx) }
func (s *lwkShim) GetFee(txSize int64) (uint64, error)              { return s.w.GetFee(txSize) }
func (s *lwkShim) SetLabel(txID, address, label string) error       { return s.w.SetLabel(txID, address, label) }
func (s *lwkShim) Ping() (bool, error)                              { return s.w.Ping() }
func (s *lwkShim) CreateAndBroadcastTransaction(p *swap.OpeningParams, asset []byte) (string, string, uint64, error) {
	k := taskKey()
	s.n.mu.Lock()
	s.f.ann[k] = p
	s.n.mu.Unlock()
	defer func() {
		s.n.mu.Lock()
		delete(s.f.ann, k)
		s.n.mu.Unlock()
	}()
	return s.w.CreateAndBroadcastTransaction(p, asset)
}

// bootLwkWallet builds the node's Liquid wallet the way cmd/*/main.go does for the LWK back-end.
func (n *Node) bootLwkWallet(ctx context.Context) (wallet.Wallet, error) {
	f := &fakeLwk{n: n, l: n.LiquidWallet, ann: map[string]*swap.OpeningParams{}, psets: map[string]*lwkPset{}}
	n.lwk = f
	cb, err := lwk.NewConfBuilder(lwk.NetworkRegtest).DefaultConf()
	if err != nil {
		return nil, err
	}
	conf, err := cb.SetLiquidSwaps(true).Build()
	if err != nil {
		return nil, err
	}
	w, err := lwk.NewSimLWKRpcWallet(ctx, conf, &electrumWalletStub{electrumStub{n: n, c: n.w.LBTC}})
	if err != nil {
		return nil, err
	}
	n.w.Probe("tierE:real-lwk-wallet")
	return &lwkShim{n: n, f: f, w: w}, nil
}
