package world

import "fmt"

// C24 — fee and claim payments are one HTLC over the swap's own channel to that
// channel's peer, for the invoice's exact amount. Judged on the SendPaymentV2
// requests the real lnd adapter emits (tier 2) and on the sendpay requests the
// real clightning adapter emits (tier 3).
type monC24 struct{ base }

func (m *monC24) Name() string { return "C24" }

func (m *monC24) OnObs(w *World, o *Obs) {
	if o.Kind != "pay.call" || o.Pay == nil || (o.Pay.Lnd == nil && o.Pay.Cln == nil) || !isReal(w, o.Node) {
		return
	}
	if o.Pay.Fn != "RebalancePayment" && o.Pay.Fn != "PayInvoiceViaChannel" {
		return
	}
	req := o.Pay.Lnd
	if req == nil {
		req = &LndPayReq{}
	}
	kind := "claim"
	if o.Pay.Fn == "PayInvoiceViaChannel" {
		kind = "fee"
	}
	w.Probe("C24:request-checked:" + kind)
	body, err := DecodePayreqBody(o.Pay.Payreq)
	if err != nil {
		w.Violate("C24", "payment-for-undecodable-invoice:"+kind, "node %d emitted a payment request for an invoice that does not decode: %v", o.Node, err)
		return
	}
	// the swap this invoice belongs to, from the payer's own record
	var scid string
	var peer int = -1
	for _, si := range m.tr.Swaps[o.Node] {
		r := si.Rec
		if r == nil || r.Request() == nil {
			continue
		}
		fee := r.Data.SwapOutAgreement != nil && r.Data.SwapOutAgreement.Payreq == o.Pay.Payreq
		claim := r.Data.OpeningTxBroadcasted != nil && r.Data.OpeningTxBroadcasted.Payreq == o.Pay.Payreq
		if fee || claim {
			scid, peer = r.Request().Scid, si.PeerNode
		}
	}
	if scid == "" {
		w.Violate("C24", "payment-without-swap:"+kind, "node %d emitted a %s payment request for invoice %.8s that belongs to none of its swaps", o.Node, kind, body.H)
		return
	}
	if rt := o.Pay.Cln; rt != nil {
		// CLN: the route handed to sendpay is the payment
		w.Probe("C24:cln-route-checked:" + kind)
		if rt.Hops != 1 {
			w.Violate("C24", "cln-route-not-one-hop:"+kind, "node %d: the %s payment of the swap on channel %s is sent along a route of %d hops", o.Node, kind, scid, rt.Hops)
			return
		}
		if rt.Channel != NormScid(scid) {
			w.Violate("C24", "cln-route-not-over-the-swap-channel:"+kind, "node %d: the %s payment of the swap on channel %s is routed over channel %q", o.Node, kind, scid, rt.Channel)
		}
		if rt.AmountMsat != body.A || (rt.ReqMsat != 0 && rt.ReqMsat != body.A) {
			w.Violate("C24", "cln-amount-not-the-invoice-amount:"+kind, "node %d: the %s payment sends %d msat (recorded as %d) for an invoice of %d msat", o.Node, kind, rt.AmountMsat, rt.ReqMsat, body.A)
		}
		if rt.Parts != 0 {
			w.Violate("C24", "cln-multi-part:"+kind, "node %d: the %s payment is sent as part %d of a multi-part payment", o.Node, kind, rt.Parts)
		}
		return
	}
	want := lndChanID(scid)
	ids := req.OutgoingChanIds
	if len(ids) == 0 && req.OutgoingChanId != 0 {
		ids = []uint64{req.OutgoingChanId}
	}
	if len(ids) != 1 || ids[0] != want {
		w.Violate("C24", "not-restricted-to-the-swap-channel:"+kind, "node %d: the %s payment of swap on channel %s is allowed to leave over channels %v (swap channel is %d)", o.Node, kind, scid, ids, want)
	}
	if req.MaxParts != 1 {
		w.Violate("C24", "more-than-one-part-allowed:"+kind, "node %d: the %s payment request allows %d parts", o.Node, kind, req.MaxParts)
	}
	if req.Amt != 0 || req.AmtMsat != 0 {
		w.Violate("C24", "amount-overridden:"+kind, "node %d: the %s payment request carries its own amount (%d sat / %d msat) instead of the invoice's", o.Node, kind, req.Amt, req.AmtMsat)
	}
	if req.HasDest || req.LastHopPubkey {
		w.Violate("C24", "destination-overridden:"+kind, "node %d: the %s payment request overrides the destination / last hop", o.Node, kind)
	}
	ch := w.LN.channel(scid)
	if ch == nil || ch.peerOf(o.Node) < 0 {
		return
	}
	chPeer := ch.peerOf(o.Node)
	if body.D != w.Nodes[chPeer].Pubkey {
		w.Violate("C24", "payment-built-for-foreign-destination:"+kind, "node %d built a %s payment for an invoice whose destination %.10s is not the peer of the swap channel %s (%.10s)", o.Node, kind, body.D, scid, w.Nodes[chPeer].Pubkey)
	}
	_ = peer
	_ = fmt.Sprint
}
