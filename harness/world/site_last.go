package world

import "time"

// siteLast remembers when each (node, site) was last reached, before the
// healing short-cut of faultFor (monitors ask "is the node still trying?").
var _ = time.Second

func (w *World) noteSite(key string) {
	if w.siteLast == nil {
		w.siteLast = map[string]time.Duration{}
	}
	w.siteLast[key] = w.Sim.Now()
}

// LastSiteAt reports when node last reached site (ok=false: never).
func (w *World) LastSiteAt(node int, site string) (time.Duration, bool) {
	faultMu.Lock()
	defer faultMu.Unlock()
	t, ok := w.siteLast[keyOf(node, site)]
	return t, ok
}

func keyOf(node int, site string) string {
	return string(rune('0'+node)) + "/" + site
}
