package world

import (
	"bytes"
	"crypto/sha256"
	"errors"
	"fmt"

	"github.com/btcsuite/btcd/btcec/v2"
	"github.com/btcsuite/btcd/btcec/v2/ecdsa"
	"github.com/btcsuite/btcd/chaincfg/chainhash"
	"github.com/btcsuite/btcd/txscript"
	"github.com/btcsuite/btcd/wire"
	"github.com/vulpemventures/go-elements/elementsutil"
	"github.com/vulpemventures/go-elements/transaction"
)

func parseLiquidTx(rawHex string) (*ChainTx, error) {
	t, err := transaction.NewTxFromHex(rawHex)
	if err != nil {
		return nil, err
	}
	tx := &ChainTx{ID: t.TxHash().String(), Hex: rawHex, NOut: len(t.Outputs)}
	for _, o := range t.Outputs {
		tx.OutScripts = append(tx.OutScripts, o.Script)
	}
	for _, in := range t.Inputs {
		h, err := chainhash.NewHash(in.Hash)
		if err != nil {
			return nil, err
		}
		tx.Ins = append(tx.Ins, fmt.Sprintf("%s:%d", h.String(), in.Index))
	}
	return tx, nil
}

func (c *SimChain) verifyLiquidSwapSpend(tx *ChainTx, so *SwapOutput) (string, error) {
	t, err := transaction.NewTxFromHex(tx.Hex)
	if err != nil {
		return "", err
	}
	idx := -1
	for i, in := range t.Inputs {
		h, _ := chainhash.NewHash(in.Hash)
		if h.String() == so.TxID && in.Index == so.Vout {
			idx = i
		}
	}
	if idx < 0 {
		return "", errors.New("internal: swap input not found")
	}
	in := t.Inputs[idx]
	if len(in.Witness) < 1 {
		return "", errors.New("mandatory-script-verify-flag-failed (witness program was passed an empty witness)")
	}
	script := in.Witness[len(in.Witness)-1]
	prog := sha256.Sum256(script)
	if len(so.PkScript) != 34 || so.PkScript[0] != 0 || so.PkScript[1] != 0x20 || !bytes.Equal(so.PkScript[2:], prog[:]) {
		return "", errors.New("mandatory-script-verify-flag-failed (witness program hash mismatch)")
	}
	sigHasher := func(hashType txscript.SigHashType) []byte {
		h := t.HashForWitnessV0(idx, script, so.ValueCommitment, hashType)
		return h[:]
	}
	if err := RunWitnessScript(script, in.Witness[:len(in.Witness)-1], sigHasher, int32(t.Version), in.Sequence); err != nil {
		return "", fmt.Errorf("mandatory-script-verify-flag-failed (%v)", err)
	}
	if err := bip68ok(int32(t.Version), in.Sequence, c.Confirmations(so.TxID)); err != nil {
		return "", err
	}
	return classifyWitness(len(in.Witness)), nil
}

// ---------------------------------------------------------------------------
// A small interpreter for segwit-v0 witness scripts, covering the opcodes that
// can appear in the swap script. Any other opcode is an error that callers
// must treat as "interpreter does not cover this script" (infrastructure),
// which is signalled by ErrUnsupportedOpcode.

var ErrUnsupportedOpcode = errors.New("interpreter does not cover this script")

func castBool(b []byte) bool {
	for i, x := range b {
		if x != 0 {
			if i == len(b)-1 && x == 0x80 {
				return false
			}
			return true
		}
	}
	return false
}

func scriptNum(b []byte, maxLen int) (int64, error) {
	if len(b) > maxLen {
		return 0, errors.New("script number overflow")
	}
	if len(b) == 0 {
		return 0, nil
	}
	// minimal encoding
	if b[len(b)-1]&0x7f == 0 {
		if len(b) == 1 || b[len(b)-2]&0x80 == 0 {
			return 0, errors.New("non-minimally encoded script number")
		}
	}
	var v int64
	for i, x := range b {
		v |= int64(x) << (8 * uint(i))
	}
	if b[len(b)-1]&0x80 != 0 {
		v &= ^(int64(0x80) << (8 * uint(len(b)-1)))
		v = -v
	}
	return v, nil
}

// RunWitnessScript executes script with the given initial stack under the
// standard segwit-v0 rules (MINIMALIF, NULLFAIL, strict DER + low S,
// CLEANSTACK).
func RunWitnessScript(script []byte, stack [][]byte, sigHash func(txscript.SigHashType) []byte, txVersion int32, sequence uint32) error {
	st := make([][]byte, len(stack))
	copy(st, stack)
	for _, it := range st {
		if len(it) > 520 {
			return errors.New("push size")
		}
	}
	var cond []bool // exec stack
	executing := func() bool {
		for _, c := range cond {
			if !c {
				return false
			}
		}
		return true
	}
	pop := func() ([]byte, error) {
		if len(st) == 0 {
			return nil, errors.New("stack underflow")
		}
		v := st[len(st)-1]
		st = st[:len(st)-1]
		return v, nil
	}
	tok := txscript.MakeScriptTokenizer(0, script)
	for tok.Next() {
		op := tok.Opcode()
		data := tok.Data()
		ex := executing()
		// flow control is processed even when not executing
		switch op {
		case txscript.OP_IF, txscript.OP_NOTIF:
			v := false
			if ex {
				top, err := pop()
				if err != nil {
					return err
				}
				if len(top) > 1 || (len(top) == 1 && top[0] != 1) {
					return errors.New("OP_IF/NOTIF argument must be minimal")
				}
				v = castBool(top)
				if op == txscript.OP_NOTIF {
					v = !v
				}
			}
			cond = append(cond, v)
			continue
		case txscript.OP_ELSE:
			if len(cond) == 0 {
				return errors.New("unbalanced conditional")
			}
			cond[len(cond)-1] = !cond[len(cond)-1]
			continue
		case txscript.OP_ENDIF:
			if len(cond) == 0 {
				return errors.New("unbalanced conditional")
			}
			cond = cond[:len(cond)-1]
			continue
		}
		if !ex {
			continue
		}
		switch {
		case op == txscript.OP_0:
			st = append(st, []byte{})
		case op >= txscript.OP_DATA_1 && op <= txscript.OP_PUSHDATA4:
			st = append(st, append([]byte(nil), data...))
		case op == txscript.OP_1NEGATE:
			st = append(st, []byte{0x81})
		case op >= txscript.OP_1 && op <= txscript.OP_16:
			st = append(st, []byte{byte(op - txscript.OP_1 + 1)})
		case op == txscript.OP_NOP:
		case op == txscript.OP_DROP:
			if _, err := pop(); err != nil {
				return err
			}
		case op == txscript.OP_DUP:
			if len(st) == 0 {
				return errors.New("stack underflow")
			}
			st = append(st, st[len(st)-1])
		case op == txscript.OP_SIZE:
			if len(st) == 0 {
				return errors.New("stack underflow")
			}
			n := len(st[len(st)-1])
			if n == 0 {
				st = append(st, []byte{})
			} else if n < 0x80 {
				st = append(st, []byte{byte(n)})
			} else {
				st = append(st, []byte{byte(n & 0xff), byte(n >> 8)})
			}
		case op == txscript.OP_EQUAL || op == txscript.OP_EQUALVERIFY:
			a, err := pop()
			if err != nil {
				return err
			}
			b, err := pop()
			if err != nil {
				return err
			}
			eq := bytes.Equal(a, b)
			if op == txscript.OP_EQUALVERIFY {
				if !eq {
					return errors.New("OP_EQUALVERIFY failed")
				}
			} else if eq {
				st = append(st, []byte{1})
			} else {
				st = append(st, []byte{})
			}
		case op == txscript.OP_VERIFY:
			a, err := pop()
			if err != nil {
				return err
			}
			if !castBool(a) {
				return errors.New("OP_VERIFY failed")
			}
		case op == txscript.OP_SHA256:
			a, err := pop()
			if err != nil {
				return err
			}
			h := sha256.Sum256(a)
			st = append(st, h[:])
		case op == txscript.OP_CHECKSIG || op == txscript.OP_CHECKSIGVERIFY:
			pk, err := pop()
			if err != nil {
				return err
			}
			sig, err := pop()
			if err != nil {
				return err
			}
			ok := false
			if len(sig) > 0 {
				ht := txscript.SigHashType(sig[len(sig)-1])
				base := ht & ^txscript.SigHashAnyOneCanPay
				if base < txscript.SigHashAll || base > txscript.SigHashSingle {
					return errors.New("invalid hash type")
				}
				if len(pk) != 33 || (pk[0] != 2 && pk[0] != 3) {
					return errors.New("witness pubkey must be compressed")
				}
				ps, err := ecdsa.ParseDERSignature(sig[:len(sig)-1])
				if err != nil {
					return fmt.Errorf("non-canonical DER signature: %v", err)
				}
				pub, err := btcec.ParsePubKey(pk)
				if err != nil {
					return fmt.Errorf("bad pubkey: %v", err)
				}
				// low S
				sv := ps.S()
				if sv.IsOverHalfOrder() {
					return errors.New("non-canonical signature: S value is unnecessarily high")
				}
				ok = ps.Verify(sigHash(ht), pub)
				if !ok {
					return errors.New("signature not empty on failed checksig (NULLFAIL)")
				}
			}
			if op == txscript.OP_CHECKSIGVERIFY {
				if !ok {
					return errors.New("OP_CHECKSIGVERIFY failed")
				}
			} else if ok {
				st = append(st, []byte{1})
			} else {
				st = append(st, []byte{})
			}
		case op == txscript.OP_CHECKSEQUENCEVERIFY:
			if len(st) == 0 {
				return errors.New("stack underflow")
			}
			n, err := scriptNum(st[len(st)-1], 5)
			if err != nil {
				return err
			}
			if n < 0 {
				return errors.New("negative locktime")
			}
			if uint64(n)&uint64(wire.SequenceLockTimeDisabled) != 0 {
				break
			}
			if uint32(txVersion) < 2 {
				return errors.New("CSV: transaction version too low")
			}
			if sequence&wire.SequenceLockTimeDisabled != 0 {
				return errors.New("CSV: input sequence has disable flag")
			}
			mask := uint64(wire.SequenceLockTimeIsSeconds | wire.SequenceLockTimeMask)
			a := uint64(n) & mask
			b := uint64(sequence) & mask
			if (a < wire.SequenceLockTimeIsSeconds) != (b < wire.SequenceLockTimeIsSeconds) {
				return errors.New("CSV: lock type mismatch")
			}
			if a > b {
				return errors.New("CSV: locktime requirement not satisfied")
			}
		default:
			return fmt.Errorf("%w: opcode 0x%02x", ErrUnsupportedOpcode, op)
		}
		if len(st) > 1000 {
			return errors.New("stack size")
		}
	}
	if err := tok.Err(); err != nil {
		return err
	}
	if len(cond) != 0 {
		return errors.New("unbalanced conditional")
	}
	if len(st) != 1 {
		return fmt.Errorf("witness script must leave exactly one stack element (has %d)", len(st))
	}
	if !castBool(st[0]) {
		return errors.New("script evaluated to false")
	}
	return nil
}

func plainLiquidSpend(txid string, vout uint32) string {
	h, err := chainhash.NewHashFromStr(txid)
	if err != nil {
		return ""
	}
	t := transaction.NewTx(2)
	t.AddInput(transaction.NewTxInput(h[:], vout))
	asset := append([]byte{0x01}, bytes.Repeat([]byte{0x11}, 32)...)
	v, _ := elementsutil.ValueToBytes(1000)
	t.AddOutput(transaction.NewTxOutput(asset, v, []byte{0x00, 0x14, 1, 2, 3, 4, 5, 6, 7, 8, 9, 10, 11, 12, 13, 14, 15, 16, 17, 18, 19, 20}))
	s, err := t.ToHex()
	if err != nil {
		return ""
	}
	return s
}
