package world

import (
	"encoding/hex"
	"encoding/json"
	"fmt"
	"time"
)

// twinRequest: adversary move "twin". The third party has seen (or guessed) the
// id of a request that is on its way to a real node and sends its own request
// with the same id, on its own channel, so that both arrive within the same
// instant and are handled concurrently. mv.N = delay of the twin relative to the
// genuine request in ms (may be negative), mv.Arg = "other-type" to use the
// other request type.
func (w *World) twinRequest(from, to int, typ int, payload []byte, lat time.Duration) {
	if typ != MsgSwapInRequest && typ != MsgSwapOutRequest {
		return
	}
	if from > 1 || !w.Nodes[to].Real {
		return
	}
	for i := range w.Plan.Adv {
		mv := w.Plan.Adv[i]
		if mv.Kind != "twin" || w.twinsDone[i] {
			continue
		}
		if w.twinsDone == nil {
			w.twinsDone = map[int]bool{}
		}
		w.twinsDone[i] = true
		var body map[string]interface{}
		if json.Unmarshal(payload, &body) != nil {
			return
		}
		body["scid"] = fmt.Sprintf("%dx2x0", 200+to)
		body["amount"] = 654_321
		body["pubkey"] = hex.EncodeToString(nodeKey(8).PubKey().SerializeCompressed())
		ttyp := typ
		if mv.Arg == "other-type" {
			if typ == MsgSwapInRequest {
				ttyp = MsgSwapOutRequest
			} else {
				ttyp = MsgSwapInRequest
			}
		}
		tp, _ := json.Marshal(body)
		d := lat + time.Duration(mv.N)*time.Millisecond
		if d < 0 {
			d = 0
		}
		id := swapIDOf(tp)
		w.Probe("inject:twin-request")
		w.Sim.After(d, "adv", fmt.Sprintf("twin#%d 2->%d %x", i, to, ttyp), func() {
			w.Observe(&Obs{Node: 2, Kind: "inject", Msg: &MsgObs{From: 2, To: to, Type: ttyp, Payload: tp, SwapID: id}, Str: "twin"})
			w.Nodes[to].deliver(2, ttyp, tp, -1000-w.injSeq())
		})
	}
}
