package world

import (
	"bytes"
	"encoding/json"
	"fmt"
	"strings"
	"time"

	"github.com/elementsproject/peerswap/policy"
	"go.etcd.io/bbolt"
)

// ---------------------------------------------------------------------------
// extra operator ops

// doExtOp handles ops that act on a node from outside its process.
func (w *World) doExtOp(i int, op *Op) bool {
	n := w.Nodes[op.Node]
	switch op.Kind {
	case "crash-setversion":
		// stop the daemon, change the stored database version, start it again
		n.Crash(-1)
		w.setStoredVersion(n, op.Arg)
		w.Probe("op:setversion")
		w.Sim.After(ms(int(op.N)), "restart", fmt.Sprintf("restart n%d", n.ID), func() {
			if n.db != nil || n.Up {
				return
			}
			w.Observe(&Obs{Node: n.ID, Kind: "restart"})
			n.Start()
		})
		return true
	case "disconnect", "connect":
		if n.ext.disconnected == nil {
			n.ext.disconnected = map[int]bool{}
		}
		n.ext.disconnected[op.Peer] = op.Kind == "disconnect"
		return true
	}
	return false
}

func (w *World) setStoredVersion(n *Node, v string) {
	db, err := bbolt.Open(n.dbPath, 0o600, &bbolt.Options{NoSync: true, Timeout: time.Second})
	if err != nil {
		w.Infraf("setversion: %v", err)
		return
	}
	defer db.Close()
	db.Update(func(tx *bbolt.Tx) error {
		b, err := tx.CreateBucketIfNotExists([]byte("version"))
		if err != nil {
			return err
		}
		if v == "" {
			return b.Delete([]byte("version"))
		}
		return b.Put([]byte("version"), []byte(v))
	})
}

// StoredVersion reads the database version of a running node ("" = none).
func (n *Node) StoredVersion2() string {
	if n.db == nil {
		return "?"
	}
	out := ""
	n.db.View(func(tx *bbolt.Tx) error {
		b := tx.Bucket([]byte("version"))
		if b != nil {
			if v := b.Get([]byte("version")); v != nil {
				out = string(v)
			}
		}
		return nil
	})
	return out
}

// ---------------------------------------------------------------------------
// C29 — the database version changes only when no swap is active.

type monC29 struct {
	base
	pre map[int]*c29snap
}

type c29snap struct {
	version string
	recs    map[string][]byte
	active  bool
}

func (m *monC29) Name() string { return "C29" }

func (m *monC29) OnObs(w *World, o *Obs) {
	if !isReal(w, o.Node) {
		return
	}
	n := w.Nodes[o.Node]
	switch o.Kind {
	case "boot.preupgrade":
		s := &c29snap{version: n.StoredVersion2(), recs: n.AllRaw()}
		for _, raw := range s.recs {
			if r := DecodeRec(raw); r != nil && !r.Terminal() {
				s.active = true
			}
		}
		m.pre[o.Node] = s
	case "boot.upgraded", "boot.fail":
		s := m.pre[o.Node]
		if s == nil || (o.Kind == "boot.fail" && !strings.HasPrefix(o.Str, "safeupgrade")) {
			return
		}
		delete(m.pre, o.Node)
		cur := currentDBVersion()
		now := n.StoredVersion2()
		failed := o.Kind == "boot.fail"
		w.Probe(fmt.Sprintf("C29:startup:stored-%s:active-%v:failed-%v", map[bool]string{true: "current", false: "other"}[s.version == cur], s.active, failed))
		// records must be untouched by the version step when it fails; when it succeeds the
		// version step itself must not touch swaps either (other handlers may run concurrently, so only the failing case compares bytes)
		switch {
		case s.version == cur:
			if failed {
				w.Violate("C29", "startup-failed-with-current-version", "node %d: startup failed (%s) although the stored version %q is the current one", o.Node, o.Str, s.version)
			}
		case s.active:
			if !failed {
				w.Violate("C29", "upgraded-with-active-swaps", "node %d: stored version %q was replaced by %q although a persisted swap is not terminal", o.Node, s.version, now)
			} else {
				if now != s.version {
					w.Violate("C29", "version-changed-on-failed-startup", "node %d: startup failed but the stored version changed from %q to %q", o.Node, s.version, now)
				}
				after := n.AllRaw()
				for id, raw := range s.recs {
					if !bytes.Equal(raw, after[id]) {
						// a message handled between Start() and SafeUpgrade may legitimately change a swap; only flag unexplained changes
						explained := false
						for _, x := range w.Obs {
							if x.Kind == "store.write" && x.Node == o.Node && x.Inc == o.Inc && x.Store.SwapID == id {
								explained = true
							}
						}
						if !explained {
							w.Violate("C29", "swap-changed-on-failed-startup", "node %d: startup failed but the record of swap %.8s changed", o.Node, id)
						}
					}
				}
			}
		default:
			if failed {
				w.Violate("C29", "startup-failed-without-active-swaps", "node %d: startup failed (%s) although every persisted swap is terminal (stored version %q)", o.Node, o.Str, s.version)
			} else if now != cur {
				w.Violate("C29", "version-not-updated", "node %d: every swap is terminal but the stored version is %q, not the current %q", o.Node, now, cur)
			}
		}
	}
}

// ---------------------------------------------------------------------------
// C27 — premiums follow the configured rate and match what peer-sync advertises.

type monC27 struct {
	base
	rp     [2]*RefPremium
	lastOp [2]time.Duration
}

func (m *monC27) Name() string { return "C27" }

func (m *monC27) ref(w *World, node int) *RefPremium {
	if m.rp[node] == nil {
		m.rp[node] = NewRefPremium(w, node)
	}
	return m.rp[node]
}

func (m *monC27) OnObs(w *World, o *Obs) {
	switch o.Kind {
	case "op.start":
		if o.Node >= 0 && o.Node < 2 && strings.HasPrefix(o.Str, "premium-") {
			m.lastOp[o.Node] = o.T
		}
	case "op.result":
		idx := int(o.Num)
		if idx < 0 || idx >= len(w.Plan.Ops) || !isReal(w, o.Node) {
			return
		}
		op := w.Plan.Ops[idx]
		if strings.HasPrefix(op.Kind, "premium-") {
			m.lastOp[o.Node] = o.T
			if strings.HasSuffix(o.Str, "|") {
				m.ref(w, o.Node).Apply(&op, NodePubkey(op.Peer))
				w.Probe("C27:op:" + op.Kind)
			}
		}
	case "send":
		if !isReal(w, o.Node) {
			return
		}
		if o.T-m.lastOp[o.Node] < 300*time.Millisecond && m.lastOp[o.Node] > 0 {
			return // a rate change is racing with this message
		}
		rp := m.ref(w, o.Node)
		peer := w.Nodes[o.Msg.To].Pubkey
		switch o.Msg.Type {
		case MsgPoll, MsgRequestPoll:
			var dto struct {
				BI int64 `json:"btc_swap_in_premium_rate_ppm"`
				BO int64 `json:"btc_swap_out_premium_rate_ppm"`
				LI int64 `json:"lbtc_swap_in_premium_rate_ppm"`
				LO int64 `json:"lbtc_swap_out_premium_rate_ppm"`
			}
			if json.Unmarshal(o.Msg.Payload, &dto) != nil {
				return
			}
			w.Probe("C27:poll-checked")
			want := [4]int64{rp.Rate(peer, "btc", "in"), rp.Rate(peer, "btc", "out"), rp.Rate(peer, "lbtc", "in"), rp.Rate(peer, "lbtc", "out")}
			got := [4]int64{dto.BI, dto.BO, dto.LI, dto.LO}
			if got != want {
				w.Violate("C27", "advertised-rates-differ", "node %d advertises rates %v (btc in/out, lbtc in/out) to node %d, it would charge %v", o.Node, got, o.Msg.To, want)
			}
		case MsgSwapInAgreement, MsgSwapOutAgreement:
			var ag RecAgreement
			if json.Unmarshal(o.Msg.Payload, &ag) != nil {
				return
			}
			r := w.FreshRec(o.Node, o.Msg.SwapID)
			if r == nil || r.Request() == nil {
				return
			}
			op := "out"
			if o.Msg.Type == MsgSwapInAgreement {
				op = "in"
			}
			w.Probe("C27:agreement-checked")
			want := rp.Compute(r.Data.PeerNodeID, r.Chain(), op, r.Request().Amount)
			if ag.Premium != want {
				w.Violate("C27", "premium-differs-from-rate:"+r.Chain()+"/"+op, "node %d charges premium %d for %d sat (%s swap-%s) to %.10s, rate %d ppm gives %d", o.Node, ag.Premium, r.Request().Amount, r.Chain(), op, r.Data.PeerNodeID, rp.Rate(r.Data.PeerNodeID, r.Chain(), op), want)
			}
		}
	}
}

// ---------------------------------------------------------------------------
// C26 — peers that forced a CSV refund are quarantined.

type monC26 struct {
	base
	since map[string]time.Duration // node/peer -> time of quarantine
}

func (m *monC26) Name() string { return "C26" }

const c26Slack = 2 * time.Second

func (m *monC26) OnObs(w *World, o *Obs) {
	switch o.Kind {
	case "store.write":
		if o.Store.State != "State_ClaimedCsv" || o.Store.Raw == nil {
			return
		}
		r := DecodeRec(o.Store.Raw)
		if r == nil {
			return
		}
		for _, p := range w.Nodes {
			if p.Pubkey == r.Data.PeerNodeID {
				key := fmt.Sprintf("%d/%d", o.Node, p.ID)
				if _, ok := m.since[key]; !ok {
					m.since[key] = o.T
					w.Probe("C26:csv-refund-finished")
				}
			}
		}
	case "send":
		if !isReal(w, o.Node) {
			return
		}
		t0, ok := m.since[fmt.Sprintf("%d/%d", o.Node, o.Msg.To)]
		if !ok || o.T < t0+c26Slack {
			return
		}
		switch o.Msg.Type {
		case MsgSwapInAgreement, MsgSwapOutAgreement:
			// only requests received after the quarantine count
			for _, x := range w.Obs {
				if x.Kind == "deliver" && x.Node == o.Node && x.Msg.SwapID == o.Msg.SwapID && (x.Msg.Type == MsgSwapInRequest || x.Msg.Type == MsgSwapOutRequest) && x.T > t0+c26Slack {
					w.Violate("C26", "agreement-to-quarantined-peer", "node %d answered a swap request of node %d with an agreement %v after that peer forced a CSV refund", o.Node, o.Msg.To, o.T-t0)
				}
			}
		case MsgPoll:
			// a poll sent in answer to the quarantined peer's request_poll
			for _, x := range w.Obs {
				if x.Kind == "deliver" && x.Node == o.Node && x.Msg.From == o.Msg.To && x.Msg.Type == MsgRequestPoll && x.T > t0+c26Slack && o.T-x.T < 5*time.Second {
					w.Violate("C26", "peersync-answers-quarantined-peer", "node %d answered a poll request of quarantined node %d", o.Node, o.Msg.To)
				}
			}
		case MsgSwapInRequest, MsgSwapOutRequest:
			w.Violate("C26", "swap-started-with-quarantined-peer", "node %d sent a swap request to node %d although that peer forced a CSV refund", o.Node, o.Msg.To)
		}
	}
}

func (m *monC26) Final(w *World) {
	for key, t0 := range m.since {
		var node, peer int
		fmt.Sscanf(key, "%d/%d", &node, &peer)
		n := w.Nodes[node]
		if !n.Real || !n.Up || n.Pol == nil {
			continue
		}
		w.Probe("C26:quarantine-checked")
		pk := w.Nodes[peer].Pubkey
		if !n.Pol.IsPeerSuspicious(pk) {
			w.Violate("C26", "not-suspicious-in-memory", "node %d: peer %d forced a CSV refund at %v but is not on the in-memory suspicious list", node, peer, t0)
		}
		if fresh, err := policy.CreateFromFile(n.policyPath); err == nil && !fresh.IsPeerSuspicious(pk) {
			w.Violate("C26", "not-suspicious-in-file", "node %d: peer %d forced a CSV refund at %v but the policy file does not list it as suspicious", node, peer, t0)
		}
		if pv := n.PeerView(peer); pv != nil && pv.Capability() != nil {
			// capability observed after the quarantine?
			if obs := pv.LastObservedAt(); !obs.IsZero() && time.Until(obs) > 0 {
				_ = obs
			}
			for _, x := range w.Obs {
				if x.Kind == "deliver" && x.Node == node && x.Msg.From == peer && (x.Msg.Type == MsgPoll || x.Msg.Type == MsgRequestPoll) && x.T > t0+c26Slack {
					// compare the stored snapshot with what that message advertised
					var dto struct {
						BO int64 `json:"btc_swap_out_premium_rate_ppm"`
					}
					json.Unmarshal(x.Msg.Payload, &dto)
					if dto.BO != 0 && pv.Capability().PremiumRateValue != nil {
						// stored rate equals the marker rate the quarantined peer advertised afterwards
						if got := storedBtcOut(pv); got == dto.BO {
							w.Violate("C26", "peersync-stores-quarantined-capability", "node %d stored the capability that quarantined node %d advertised after its CSV refund (marker rate %d)", node, peer, dto.BO)
						}
					}
				}
			}
		}
		// local initiations towards the peer
		for i, op := range w.Plan.Ops {
			if (op.Kind == "swapout" || op.Kind == "swapin") && op.Node == node && ms(op.AtMs) > t0+c26Slack {
				for _, x := range w.Obs {
					if x.Kind == "op.result" && int(x.Num) == i && x.Node == node && strings.HasSuffix(x.Str, "|") {
						parts := strings.Split(x.Str, "|")
						if len(parts) >= 2 && parts[1] != "" {
							if si := m.tr.Get(node, parts[1]); si != nil && si.Rec != nil && si.Rec.Data.PeerNodeID == pk {
								w.Violate("C26", "local-swap-with-quarantined-peer", "node %d: %s towards quarantined node %d was accepted", node, op.Kind, peer)
							}
						}
					}
				}
			}
		}
	}
}
