package world

import (
	"encoding/binary"
	"strings"
	"time"

	"github.com/btcsuite/btcd/chaincfg/chainhash"
)

func randHashSeeded(seed uint64) chainhash.Hash {
	var h chainhash.Hash
	x := seed
	for i := 0; i < 32; i += 8 {
		x = mix64(x, uint64(i)+0x1234)
		binary.LittleEndian.PutUint64(h[i:], x)
	}
	return h
}

// LastQueryAt returns when the node last read from chain's back-end.
func (n *Node) LastQueryAt(chain string) time.Duration {
	n.mu.Lock()
	defer n.mu.Unlock()
	return n.lastQuery[chain]
}

func (n *Node) noteQuery(chain string) {
	n.mu.Lock()
	if n.lastQuery == nil {
		n.lastQuery = map[string]time.Duration{}
	}
	n.lastQuery[chain] = n.w.Sim.Now()
	n.mu.Unlock()
}

// faultsTouched: did the plan inject faults into this chain's back-end?
func (w *World) faultsTouched(chain string) bool {
	for _, f := range w.Plan.Faults {
		if strings.HasPrefix(f.Site, chain+".rpc") || (chain == "lbtc" && strings.HasPrefix(f.Site, "electrum")) {
			return true
		}
	}
	return false
}

// lastScriptedMs is the time of the last scripted environment action of the
// plan (adversary moves, watcher registrations, chain events): a run is not
// quiescent before everything scripted has happened.
func (w *World) lastScriptedMs() int {
	m := 0
	up := func(v int) {
		if v > m {
			m = v
		}
	}
	p := w.Plan
	for _, a := range p.Adv {
		up(a.AtMs)
	}
	for _, c := range p.Chain {
		up(c.AtMs)
	}
	for _, ws := range p.Watch {
		up(ws.BroadcastMs)
		up(ws.RegisterMs)
	}
	if c := p.AdvCfg; c != nil {
		up(c.StartMs)
		for _, r := range c.Requests {
			up(r.AtMs)
		}
		for _, r := range c.Polls {
			up(r.AtMs)
		}
		for _, r := range c.Spends {
			up(r.AtMs)
		}
	}
	return m
}

// noteServedAt records when a task was last told a chain height (called with n.mu held).
func (n *Node) noteServedAt(task, chain string) {
	if n.ext.servedAt == nil {
		n.ext.servedAt = map[string]time.Duration{}
	}
	n.ext.servedAt[task+"/"+chain] = n.w.Sim.Now()
}

// ServedAtToTask: when the task was last told the height of chain.
func (n *Node) ServedAtToTask(task, chain string) (time.Duration, bool) {
	n.mu.Lock()
	defer n.mu.Unlock()
	t, ok := n.ext.servedAt[task+"/"+chain]
	return t, ok
}
