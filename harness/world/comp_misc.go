package world

import (
	"encoding/binary"
	"strings"
	"time"

	"github.com/btcsuite/btcd/chaincfg/chainhash"
)

func randHashSeeded(seed uint64) chainhash.Hash {
	var h chainhash.Hash
	x := seed
	for i := 0; i < 32; i += 8 {
		x = mix64(x, uint64(i)+0x1234)
		binary.LittleEndian.PutUint64(h[i:], x)
	}
	return h
}

// LastQueryAt returns when the node last read from chain's back-end.
func (n *Node) LastQueryAt(chain string) time.Duration {
	n.mu.Lock()
	defer n.mu.Unlock()
	return n.lastQuery[chain]
}

func (n *Node) noteQuery(chain string) {
	n.mu.Lock()
	if n.lastQuery == nil {
		n.lastQuery = map[string]time.Duration{}
	}
	n.lastQuery[chain] = n.w.Sim.Now()
	n.mu.Unlock()
}

// faultsTouched: did the plan inject faults into this chain's back-end?
func (w *World) faultsTouched(chain string) bool {
	for _, f := range w.Plan.Faults {
		if strings.HasPrefix(f.Site, chain+".rpc") || (chain == "lbtc" && strings.HasPrefix(f.Site, "electrum")) {
			return true
		}
	}
	return false
}
