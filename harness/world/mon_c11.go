package world

import (
	"encoding/hex"
	"encoding/json"
	"fmt"
	"strings"
	"time"
)

// RefPolicy is the reference model of the operator policy: two sets + flags.
type RefPolicy struct {
	AcceptAll  bool
	Allow      map[string]bool
	Suspicious map[string]bool
	MinMsat    uint64
	Enabled    bool
}

func NewRefPolicy(w *World, node int) *RefPolicy {
	scn := &w.Plan.Scn
	rp := &RefPolicy{AcceptAll: scn.AcceptAll[node], Allow: map[string]bool{}, Suspicious: map[string]bool{}, MinMsat: scn.MinSwapMsat[node], Enabled: scn.SwapsAllowed[node]}
	if rp.MinMsat == 0 {
		rp.MinMsat = 100_000_000 // documented default: 100000 sat
	}
	for _, p := range scn.Allowlist[node] {
		rp.Allow[NodePubkey(p)] = true
	}
	for _, p := range scn.Suspicious[node] {
		rp.Suspicious[NodePubkey(p)] = true
	}
	return rp
}

func validPubkeyHex(s string) bool {
	b, err := hex.DecodeString(s)
	return err == nil && len(b) == 33
}

// Apply mirrors a successful operator op; returns whether the op is expected to succeed.
func (rp *RefPolicy) Expect(kind, peer string) bool {
	switch kind {
	case "policy-allow":
		return validPubkeyHex(peer) && !rp.Allow[peer]
	case "policy-suspect":
		return validPubkeyHex(peer) && !rp.Suspicious[peer]
	case "policy-unallow":
		return validPubkeyHex(peer) && rp.Allow[peer]
	case "policy-unsuspect":
		return validPubkeyHex(peer) && rp.Suspicious[peer]
	}
	return true
}

func (rp *RefPolicy) Apply(kind, peer string) {
	switch kind {
	case "policy-allow":
		rp.Allow[peer] = true
	case "policy-unallow":
		delete(rp.Allow, peer)
	case "policy-suspect":
		rp.Suspicious[peer] = true
	case "policy-unsuspect":
		delete(rp.Suspicious, peer)
	case "policy-disable":
		rp.Enabled = false
	case "policy-enable":
		rp.Enabled = true
	}
}

func (rp *RefPolicy) PeerOK(peer string) bool {
	return (rp.AcceptAll || rp.Allow[peer]) && !rp.Suspicious[peer]
}

// ---------------------------------------------------------------------------
// C11 — requests are admitted only when every policy condition holds.

type c11req struct {
	id       string
	from     int
	typ      int
	q        RecRequest
	expected bool
	why      string
	judged   bool
	at       time.Duration
}

type monC11 struct {
	base
	pol    [2]*RefPolicy
	prem   [2]*RefPremium
	reqs   map[string]*c11req
	lastOp time.Duration
}

func (m *monC11) Name() string { return "C11" }

func (m *monC11) refs(w *World, node int) (*RefPolicy, *RefPremium) {
	if m.pol[node] == nil {
		m.pol[node] = NewRefPolicy(w, node)
		m.prem[node] = NewRefPremium(w, node)
	}
	return m.pol[node], m.prem[node]
}

func (m *monC11) OnObs(w *World, o *Obs) {
	switch o.Kind {
	case "op.result":
		idx := int(o.Num)
		if idx < 0 || idx >= len(w.Plan.Ops) || !isReal(w, o.Node) {
			return
		}
		op := w.Plan.Ops[idx]
		ok := strings.HasSuffix(o.Str, "|")
		pol, prem := m.refs(w, o.Node)
		if strings.HasPrefix(op.Kind, "policy-") {
			m.lastOp = o.T
			if ok {
				pol.Apply(op.Kind, NodePubkey(op.Peer))
			}
		}
		if strings.HasPrefix(op.Kind, "premium-") && ok {
			prem.Apply(&op, NodePubkey(op.Peer))
		}
	case "op.start":
		m.lastOp = o.T
	case "deliver":
		if !isReal(w, o.Node) || (o.Msg.Type != MsgSwapInRequest && o.Msg.Type != MsgSwapOutRequest) {
			return
		}
		if w.Nodes[o.Msg.From].Real {
			return
		}
		var q RecRequest
		if json.Unmarshal(o.Msg.Payload, &q) != nil {
			return
		}
		if _, dup := m.reqs[q.SwapID]; dup {
			return
		}
		r := &c11req{id: q.SwapID, from: o.Msg.From, typ: o.Msg.Type, q: q, at: o.T}
		r.expected, r.why = m.admission(w, o.Node, r)
		// a policy/premium operation racing with this request makes the reference state ambiguous
		r.judged = o.T-m.lastOp > 300*time.Millisecond || m.lastOp == 0
		if r.why == "channel-of-other-peer" {
			// The statement says "fits the channel" without saying whose channel;
			// a request naming another peer's channel is recorded, not judged.
			r.judged = false
			w.Probe("C11:request-names-foreign-channel")
		}
		m.reqs[q.SwapID] = r
		w.Probe("C11:request:" + map[bool]string{true: "admit", false: "refuse-" + strings.Fields(r.why)[0]}[r.expected])
	}
}

// admission is the predicate of the property statement, evaluated on ground truth.
func (m *monC11) admission(w *World, node int, r *c11req) (bool, string) {
	pol, prem := m.refs(w, node)
	scn := &w.Plan.Scn
	q := r.q
	peer := w.Nodes[r.from].Pubkey
	if !pol.Enabled {
		return false, "swaps-disabled"
	}
	if (q.Asset == "") == (q.Network == "") {
		return false, "asset-xor-network"
	}
	chain := "btc"
	if q.Asset != "" {
		chain = "lbtc"
	}
	if chain == "btc" && !scn.BitcoinOn[node] || chain == "lbtc" && !scn.LiquidOn[node] {
		return false, "chain-disabled"
	}
	if chain == "btc" && q.Network != "regtest" {
		return false, "network-mismatch"
	}
	if chain == "lbtc" && q.Asset != w.liquidAssetHex() {
		return false, "asset-mismatch"
	}
	if q.ProtocolVersion != 7 {
		return false, "version"
	}
	if !validPubkeyHex(q.Pubkey) {
		return false, "pubkey"
	}
	if q.Amount*1000 < pol.MinMsat {
		return false, "below-minimum"
	}
	ch := w.LN.channel(q.Scid)
	if ch == nil || ch.peerOf(node) < 0 {
		return false, "no-such-channel"
	}
	if ch.peerOf(node) != r.from {
		// a request naming somebody else's channel: the amount cannot "fit" a channel the requester is not on
		return false, "channel-of-other-peer"
	}
	op := "out"
	if r.typ == MsgSwapInRequest {
		op = "in"
		if ch.spendable(node) < q.Amount*1000 {
			return false, "exceeds-spendable"
		}
	} else if ch.spendable(r.from) < q.Amount*1000 {
		return false, "exceeds-receivable"
	}
	if !pol.PeerOK(peer) {
		return false, "peer-not-allowed"
	}
	if prem.Compute(peer, chain, op, q.Amount) > q.PremiumLimit {
		return false, "premium-above-limit"
	}
	if op == "out" {
		bal := w.Nodes[node].BtcWallet.Balance
		if chain == "lbtc" {
			bal = w.Nodes[node].LiquidWallet.Balance
		}
		if bal < q.Amount+ownFeeEstimate(w, node, chain) {
			return false, "insufficient-onchain-balance"
		}
	}
	// one active swap per channel (C10) is a precondition of admission too
	n := w.Nodes[node]
	for _, raw := range n.AllRaw() {
		if rr := DecodeRec(raw); rr != nil && !rr.Terminal() && rr.Request() != nil && NormScid(rr.Request().Scid) == NormScid(q.Scid) {
			return false, "channel-busy"
		}
	}
	return true, "ok"
}

func (m *monC11) Final(w *World) {
	for _, r := range m.reqs {
		if !r.judged {
			continue
		}
		agreed, cancelled := false, false
		for _, o := range w.Obs {
			if o.Kind != "send" || !isReal(w, o.Node) || o.Msg.SwapID != r.id || o.T < r.at {
				continue
			}
			switch o.Msg.Type {
			case MsgSwapInAgreement, MsgSwapOutAgreement:
				agreed = true
			case MsgCancel:
				cancelled = true
			}
		}
		w.Probe("C11:request-judged")
		kind := "swap-out"
		if r.typ == MsgSwapInRequest {
			kind = "swap-in"
		}
		if agreed && !r.expected {
			w.Violate("C11", "admitted-although:"+r.why+":"+kind, "a %s request (amount %d, version %d, network %q, asset %.8s, scid %s, limit %d) from node %d was answered with an agreement although: %s", kind, r.q.Amount, r.q.ProtocolVersion, r.q.Network, r.q.Asset, r.q.Scid, r.q.PremiumLimit, r.from, r.why)
		}
		if !agreed && r.expected {
			// the node may have crashed or been stopped; only judge when it answered with cancel
			if cancelled {
				w.Violate("C11", "refused-although-admissible:"+kind, "a %s request (amount %d, scid %s, limit %d) from node %d satisfied every condition but was answered with cancel", kind, r.q.Amount, r.q.Scid, r.q.PremiumLimit, r.from)
			}
		}
		if !agreed && !r.expected && !cancelled && r.why != "no-such-channel" && r.why != "channel-of-other-peer" {
			w.Probe("C11:refused-silently:" + r.why)
		}
	}
}

func init() { _ = fmt.Sprint }
