package world

import (
	"bytes"
	"encoding/hex"
	"encoding/json"
	"fmt"
	"sort"
	"strings"
)

// Adversary is the scripted hostile party. It controls the third party
// (node 2, never real code) and, when a scenario says Kind[i]=="adv", the
// counterparty i (see adv_peer.go).
type Adversary struct {
	w    *World
	ID   int
	peer *advPeer
}

func newAdversary(w *World, id int) *Adversary {
	a := &Adversary{w: w, ID: id}
	if id < 2 {
		a.peer = newAdvPeer(a, id)
	}
	return a
}

func (a *Adversary) onMessage(self, from int, typ int, payload []byte) {
	if a.peer != nil && self == a.peer.id {
		a.peer.onMessage(from, typ, payload)
	}
}

func (a *Adversary) onHTLC(p *Payment, inv *Invoice) string {
	if a.peer != nil {
		return a.peer.onHTLC(p, inv)
	}
	return "settle"
}

func (a *Adversary) onInvoicePaid(inv *Invoice) {
	if a.peer != nil {
		a.peer.onInvoicePaid(inv)
	}
}

// Openings returns what the hostile maker built and announced, by swap id.
func (a *Adversary) Openings() map[string]*AdvOpening {
	if a.peer == nil {
		return nil
	}
	return a.peer.Opens
}

func (a *Adversary) start() {
	if a.peer != nil {
		a.peer.start()
	}
}

// ---------------------------------------------------------------------------
// Injections: messages built from ground truth at injection time and delivered
// to a real node, from the third party (node 2) or from the real peer's
// identity when the peer is adversarial.

// scheduleInjections arms all "inject" moves of the plan.
func (w *World) scheduleInjections() {
	for i := range w.Plan.Adv {
		mv := w.Plan.Adv[i]
		if mv.Kind != "inject" {
			continue
		}
		w.Sim.After(ms(mv.AtMs), "adv", fmt.Sprintf("inject#%d %s", i, mv.Arg), func() { w.doInject(&mv) })
	}
}

// targetSwap picks the which-th (by id order) persisted swap of node; "" if none.
func (w *World) targetSwap(node int, which int64) (string, *Rec) {
	n := w.Nodes[node]
	all := n.AllRaw()
	var ids []string
	for id := range all {
		ids = append(ids, id)
	}
	if len(ids) == 0 {
		return "", nil
	}
	sort.Strings(ids)
	id := ids[int(which)%len(ids)]
	return id, DecodeRec(all[id])
}

// doInject: mv.N = target node, mv.M = from node (2 = third party), mv.Arg = template.
func (w *World) doInject(mv *AdvMove) {
	to := int(mv.N)
	from := int(mv.M)
	if to < 0 || to > 1 || !w.Nodes[to].Real || !w.Nodes[to].Up {
		return
	}
	parts := strings.Split(mv.Arg, ":")
	tpl := parts[0]
	variant := ""
	if len(parts) > 1 {
		variant = parts[1]
	}
	id, rec := w.targetSwap(to, 0)
	if variant == "fresh" || id == "" {
		id = hex.EncodeToString(rand32())
		rec = nil
	}
	otherKey := nodeKey(7).PubKey().SerializeCompressed()
	scid := "100x1x0"
	if from == 2 {
		scid = "200x2x0"
	}
	chainNet, chainAsset := "regtest", ""
	if rec != nil && rec.Chain() == "lbtc" {
		chainNet, chainAsset = "", w.liquidAssetHex()
	}
	var typ int
	var body interface{}
	switch tpl {
	case "request-in", "request-out":
		typ = MsgSwapInRequest
		if tpl == "request-out" {
			typ = MsgSwapOutRequest
		}
		body = map[string]interface{}{"protocol_version": 7, "swap_id": id, "network": chainNet, "asset": chainAsset, "scid": scid, "amount": 777_777, "pubkey": hex.EncodeToString(otherKey), "acceptable_premium": 1_000_000}
	case "agreement-in":
		typ = MsgSwapInAgreement
		body = map[string]interface{}{"protocol_version": 7, "swap_id": id, "pubkey": hex.EncodeToString(otherKey), "premium": 1}
	case "agreement-out":
		typ = MsgSwapOutAgreement
		body = map[string]interface{}{"protocol_version": 7, "swap_id": id, "pubkey": hex.EncodeToString(otherKey), "payreq": EncodePayreq(strings.Repeat("ab", 32), 1000, 9, w.Nodes[from].Pubkey, 1<<40, id), "premium": 1}
	case "opening":
		typ = MsgOpeningTx
		body = map[string]interface{}{"swap_id": id, "payreq": EncodePayreq(strings.Repeat("cd", 32), 1000, 9, w.Nodes[from].Pubkey, 1<<40, id), "tx_id": strings.Repeat("11", 32), "script_out": 0, "blinding_key": strings.Repeat("22", 32)}
	case "cancel":
		typ = MsgCancel
		body = map[string]interface{}{"swap_id": id, "message": "injected cancel"}
	case "coop":
		typ = MsgCoopClose
		body = map[string]interface{}{"swap_id": id, "message": "injected coop close", "privkey": strings.Repeat("33", 32)}
	case "junk":
		typ, payload := junkMessage(variant, id)
		w.Probe("inject:junk:" + variant)
		w.Observe(&Obs{Node: from, Kind: "inject", Msg: &MsgObs{From: from, To: to, Type: typ, Payload: payload, SwapID: id, Junk: true}, Str: mv.Arg})
		w.Nodes[to].deliver(from, typ, payload, -1000-w.injSeq())
		return
	default:
		return
	}
	if variant == "bad" {
		// a message of the right kind for the right swap whose fields fail validation
		if m, ok := body.(map[string]interface{}); ok {
			switch tpl {
			case "opening":
				m["tx_id"] = "not-hex-" + strings.Repeat("z", 10)
			case "coop":
				m["privkey"] = "abcd"
			case "agreement-in", "agreement-out", "request-in", "request-out":
				m["pubkey"] = "02abcdef"
			}
			w.Probe("inject:invalid-fields:" + tpl)
		}
	}
	payload, _ := json.Marshal(body)
	w.Probe("inject:" + tpl)
	w.Observe(&Obs{Node: from, Kind: "inject", Msg: &MsgObs{From: from, To: to, Type: typ, Payload: payload, SwapID: id}, Str: mv.Arg})
	w.Nodes[to].deliver(from, typ, payload, -1000-w.injSeq())
}

func (w *World) injSeq() int { w.injN++; return w.injN }

func (w *World) liquidAssetHex() string {
	for _, n := range w.Nodes {
		if n.LiquidOn != nil {
			return n.LiquidOn.GetAsset()
		}
	}
	return ""
}

// junkMessage returns messages that must be ignored without any effect.
func junkMessage(variant, id string) (int, []byte) {
	switch variant {
	case "null":
		return MsgCancel, []byte("null")
	case "null-request":
		return MsgSwapOutRequest, []byte("null")
	case "null-opening":
		return MsgOpeningTx, []byte("null")
	case "null-coop":
		return MsgCoopClose, []byte("null")
	case "null-agreement":
		return MsgSwapInAgreement, []byte("null")
	case "empty-object":
		return MsgCancel, []byte("{}")
	case "empty-object-request":
		return MsgSwapInRequest, []byte("{}")
	case "array":
		return MsgCoopClose, []byte("[]")
	case "string":
		return MsgOpeningTx, []byte(`""`)
	case "number":
		return MsgSwapOutAgreement, []byte("42")
	case "truncated":
		return MsgCancel, []byte(`{"swap_id":"` + id[:20])
	case "short-id":
		return MsgCancel, []byte(`{"swap_id":"abcd","message":"x"}`)
	case "odd-id":
		return MsgCancel, []byte(`{"swap_id":"abc","message":"x"}`)
	case "even-type":
		return 42070, []byte(`{"swap_id":"` + id + `","message":"x"}`)
	case "out-of-range":
		return 42087, []byte(`{"swap_id":"` + id + `","message":"x"}`)
	case "low-type":
		return 1, []byte(`{"swap_id":"` + id + `"}`)
	case "over-limit-cancel", "over-limit-cancel-1", "over-limit-cancel-1023":
		// a well-formed cancel for a real swap id, just over the 100 KiB limit
		extra := map[string]int{"over-limit-cancel": 700, "over-limit-cancel-1": 1, "over-limit-cancel-1023": 1023}[variant]
		head := `{"swap_id":"` + id + `","message":"`
		tail := `"}`
		pad := 100*1024 + extra - len(head) - len(tail)
		return MsgCancel, []byte(head + strings.Repeat("A", pad) + tail)
	case "over-limit-request":
		// a well-formed swap-out request padded with JSON whitespace to just over 100 KiB
		body := `{"protocol_version":7,"swap_id":"` + hex.EncodeToString(rand32()) + `","asset":"","network":"regtest","scid":"100x1x0","amount":200000,"pubkey":"` + hex.EncodeToString(nodeKey(9).PubKey().SerializeCompressed()) + `","acceptable_premium":100000}`
		pad := 100*1024 + 512 - len(body)
		return MsgSwapOutRequest, []byte(body[:len(body)-1] + strings.Repeat(" ", pad) + "}")
	case "huge":
		return MsgCancel, []byte(`{"swap_id":"` + id + `","message":"` + strings.Repeat("A", 101*1024) + `"}`)
	case "deep":
		return MsgCancel, []byte(strings.Repeat("[", 5000) + strings.Repeat("]", 5000))
	case "binary":
		return MsgCoopClose, bytes.Repeat([]byte{0xff, 0x00, 0x7b}, 50)
	}
	return MsgCancel, []byte("nil")
}
