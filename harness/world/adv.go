package world

// Adversary is the scripted hostile counterparty (filled in by adv_*.go).
type Adversary struct {
	w  *World
	ID int
	impl advImpl
}

type advImpl interface {
	onMessage(self, from int, typ int, payload []byte)
	onHTLC(p *Payment, inv *Invoice) string
}

func (a *Adversary) onMessage(self, from int, typ int, payload []byte) {
	if a.impl != nil {
		a.impl.onMessage(self, from, typ, payload)
	}
}

func (a *Adversary) onHTLC(p *Payment, inv *Invoice) string {
	if a.impl != nil {
		return a.impl.onHTLC(p, inv)
	}
	return "settle"
}

func newAdversary(w *World, id int) *Adversary { return &Adversary{w: w, ID: id} }

func (a *Adversary) start() {}
