package world

import (
	"context"
	"errors"
	"fmt"
	"path/filepath"
	"time"

	"github.com/elementsproject/peerswap/messages"
	"github.com/elementsproject/peerswap/peersync"
	"github.com/elementsproject/peerswap/policy"
	"github.com/elementsproject/peerswap/premium"
	"github.com/elementsproject/peerswap/verifsim/rt"
)

// nodeExtra holds per-node state added after node.go was written.
type nodeExtra struct {
	PSync   *peersync.PeerSync
	psStore *peersync.Store
	psCh    chan peersync.CustomMessage
	psInc   int
	psReal  bool // peer-sync runs over its own real Lightning adapter (tiers 2 and 3), not the stub
	// connectivity as the node's lightning daemon reports it (ListPeers)
	disconnected map[int]bool
	servedAt     map[string]time.Duration // task/chain -> when it was last told the height
	maxFeeKw     int64                    // highest Bitcoin fee rate (sat/kw) the estimator has told this node
}

// ---------------------------------------------------------------------------
// peersync.Lightning served by SimNet

type peersyncStub struct{ n *Node }

func (p *peersyncStub) SendCustomMessage(ctx context.Context, to peersync.PeerID, msgType messages.MessageType, payload []byte) error {
	n := p.n
	f := n.op("net.send")
	if f != nil && f.Kind == "err" {
		return errors.New("custommsg: peer not reachable")
	}
	err := n.w.Net.Send(n.ID, to.String(), payload, int(msgType))
	if err == nil && f != nil && f.Kind == "errafter" {
		// lost acknowledgement: the message is on its way, the call still fails
		return errors.New("custommsg: rpc timed out")
	}
	return err
}

func (p *peersyncStub) SubscribeCustomMessages(ctx context.Context) (<-chan peersync.CustomMessage, error) {
	n := p.n
	n.ext.psCh = make(chan peersync.CustomMessage, 10000)
	n.ext.psInc = n.inc
	return n.ext.psCh, nil
}

func (p *peersyncStub) Stop() error { return nil }

func (p *peersyncStub) ListPeers(ctx context.Context) ([]peersync.PeerID, error) {
	n := p.n
	f := n.lightOp("ln.listpeers")
	if f != nil && f.Kind == "err" {
		return nil, errors.New("lightning rpc unavailable")
	}
	var out []peersync.PeerID
	for _, o := range n.w.Nodes {
		if o.ID == n.ID || n.ext.disconnected[o.ID] {
			continue
		}
		if !n.w.connectedTo(n.ID, o.ID) {
			continue
		}
		id, err := peersync.NewPeerID(o.Pubkey)
		if err == nil {
			out = append(out, id)
		}
	}
	return out, nil
}

// connectedTo: two nodes are lightning peers if they share a channel.
func (w *World) connectedTo(a, b int) bool {
	for _, c := range w.Plan.Scn.Channels {
		if (c.A == a && c.B == b) || (c.A == b && c.B == a) {
			return true
		}
	}
	return false
}

func (n *Node) startPeersync(ctx context.Context, pol *policy.Policy, ps *premium.Setting) {
	w := n.w
	store, err := peersync.NewStore(filepath.Join(filepath.Dir(n.dbPath), "peersync.db"))
	if err != nil {
		w.Observe(&Obs{Node: n.ID, Kind: "boot.fail", Str: "peersync store: " + err.Error()})
		return
	}
	n.ext.psStore = store
	id, err := peersync.NewPeerID(n.Pubkey)
	if err != nil {
		return
	}
	var assets []string
	if w.Plan.Scn.BitcoinOn[n.ID] {
		assets = append(assets, "btc")
	}
	if w.Plan.Scn.LiquidOn[n.ID] {
		assets = append(assets, "lbtc")
	}
	var ln peersync.Lightning = &peersyncStub{n}
	n.ext.psReal = false
	switch {
	case n.clnClient != nil:
		// tier 3: peer-sync's own CLN adapter over the real clightning client (cmd/peerswap-plugin/main.go)
		ln = peersync.NewClnLightningAdapter(n.clnClient)
		n.ext.psReal = true
		w.Probe("peersync:real-cln-adapter")
	case n.lnd != nil:
		// tier 2: peer-sync's own lnd adapter over the (simulated) lnd RPC client (cmd/peerswaplnd/peerswapd/main.go)
		n.ext.psReal = true
		ln = peersync.NewLightningAdapter(n.lnd.Lightning())
		w.Probe("peersync:real-lnd-adapter")
	}
	n.ext.PSync = peersync.NewPeerSync(id, store, ln, pol, assets, ps)
	if err := n.ext.PSync.Start(ctx); err != nil {
		w.Observe(&Obs{Node: n.ID, Kind: "boot.fail", Str: "peersync start: " + err.Error()})
		return
	}
	w.Observe(&Obs{Node: n.ID, Inc: n.inc, Kind: "peersync.started"})
}

func (n *Node) deliverPeersync(from int, typ int, payload []byte) {
	if n.ext.psCh == nil || n.ext.psInc != n.inc {
		return
	}
	id, err := peersync.NewPeerID(n.w.Nodes[from].Pubkey)
	if err != nil {
		return
	}
	select {
	case n.ext.psCh <- peersync.CustomMessage{From: id, Type: messages.MessageType(typ), Payload: payload}:
	default:
	}
}

func (n *Node) closePeersync() {
	if n.ext.psStore != nil {
		n.ext.psStore.Close()
		n.ext.psStore = nil
	}
	n.ext.psCh = nil
	n.ext.PSync = nil
	n.ext.psReal = false
}

// PeerView returns what the node's peersync store holds for peer (nil if none).
func (n *Node) PeerView(peer int) *peersync.Peer {
	if n.ext.psStore == nil {
		return nil
	}
	id, err := peersync.NewPeerID(n.w.Nodes[peer].Pubkey)
	if err != nil {
		return nil
	}
	p, err := n.ext.psStore.GetPeerState(id)
	if err != nil {
		return nil
	}
	return p
}

func init() { _ = fmt.Sprint; _ = rt.Cur }
