package world

import (
	"context"
	"crypto/sha256"
	"encoding/hex"
	"encoding/json"
	"errors"
	"fmt"
	"strings"
	"time"

	"github.com/elementsproject/peerswap/swap"
	"github.com/elementsproject/peerswap/verifsim/rt"
	"github.com/lightningnetwork/lnd/lnrpc/routerrpc"
)

// SimLN is the simulated Lightning network: channels, invoices, HTLCs.
// It is ground truth for the oracles (who paid what, what is pending).
type SimLN struct {
	w        *World
	Channels map[string]*Channel // key: normalised scid "AxBxC"
	Invoices map[string]*Invoice // by payment hash
	Payments []*Payment
	payIdx   int
	notif    map[string][]*notifier // by hash
	settleSubs map[string][]func(*Invoice)
}

type Channel struct {
	Scid       string
	A, B       int
	BalA, BalB uint64 // msat, spendable by A / by B
	Active     bool
}

type Invoice struct {
	Hash       string
	Preimage   string
	AmountMsat uint64
	Payee      int
	ExpiresAt  time.Duration
	FinalCLTV  int64
	Label      string // swap id
	Type       swap.InvoiceType
	Memo       string
	State      string // open, settled
	Payreq     string
	SettledAt  time.Duration
	ClnLabel   string // tier 3: the label lightningd knows the invoice by
}

// invoiceByLabel finds a payee's invoice by its lightningd label.
func (l *SimLN) invoiceByLabel(payee int, label string) *Invoice {
	for _, k := range rt.SortedKeys(l.Invoices) {
		if inv := l.Invoices[k]; inv.Payee == payee && inv.ClnLabel == label {
			return inv
		}
	}
	return nil
}

type Payment struct {
	Idx        int
	Payer      int
	Payee      int
	Hash       string
	AmountMsat uint64
	Scid       string
	State      string // pending, settled, failed
	Preimage   string
	Reason     string
	Fn         string
	SentAtBTC  uint32
	Permitted  uint32 // CLTV delta the payer's request permits
	Done       *rt.Event
	Wake       *rt.Event // fired on resolution or on early release of the caller
	Released   bool      // caller released early (error while pending)
	held       bool
	CallerErr  string
}

type notifier struct {
	node   int
	inc    int
	swapID string
	typ    swap.InvoiceType
	fired  bool
}

type payreqBody struct {
	H string `json:"h"`
	A uint64 `json:"a"`
	C int64  `json:"c"`
	D string `json:"d"`
	E int64  `json:"e"` // absolute expiry, virtual ms
	L string `json:"l,omitempty"`
	R []RouteHint `json:"r,omitempty"` // routing hints (BOLT11 'r' fields), one hop each
}

// RouteHint: a private-channel hint an invoice may carry.
type RouteHint struct {
	Pubkey string `json:"p"`
	Scid   string `json:"s"`
	Delta  uint32 `json:"d"` // cltv_expiry_delta
}

// WithHints re-encodes a payment request with routing hints added.
func WithHints(payreq string, hints ...RouteHint) string {
	b, err := DecodePayreqBody(payreq)
	if err != nil {
		return payreq
	}
	b.R = append(b.R, hints...)
	raw, _ := json.Marshal(b)
	return payreqPrefix + hex.EncodeToString(raw)
}

const payreqPrefix = "lnsim1"

func EncodePayreq(hash string, amountMsat uint64, cltv int64, dest string, expiresAtMs int64, label string) string {
	b, _ := json.Marshal(payreqBody{H: hash, A: amountMsat, C: cltv, D: dest, E: expiresAtMs, L: label})
	return payreqPrefix + hex.EncodeToString(b)
}

func DecodePayreqBody(payreq string) (*payreqBody, error) {
	if !strings.HasPrefix(payreq, payreqPrefix) {
		return nil, errors.New("invalid bolt11: bad prefix")
	}
	raw, err := hex.DecodeString(payreq[len(payreqPrefix):])
	if err != nil {
		return nil, errors.New("invalid bolt11: bad encoding")
	}
	var b payreqBody
	if err := json.Unmarshal(raw, &b); err != nil {
		return nil, errors.New("invalid bolt11: bad body")
	}
	if _, err := hex.DecodeString(b.H); err != nil || len(b.H) != 64 {
		return nil, errors.New("invalid bolt11: bad payment hash")
	}
	return &b, nil
}

func newSimLN(w *World) *SimLN {
	return &SimLN{w: w, Channels: map[string]*Channel{}, Invoices: map[string]*Invoice{}, notif: map[string][]*notifier{}}
}

func (l *SimLN) setup() {
	for _, c := range l.w.Plan.Scn.Channels {
		scid := fmt.Sprintf("%dx%dx%d", c.Block, c.Tx, c.Out)
		l.Channels[scid] = &Channel{Scid: scid, A: c.A, B: c.B, BalA: c.BalA, BalB: c.BalB, Active: true}
	}
}

func NormScid(s string) string { return strings.ReplaceAll(s, ":", "x") }

func (l *SimLN) channel(scid string) *Channel { return l.Channels[NormScid(scid)] }

func (c *Channel) peerOf(n int) int {
	if c.A == n {
		return c.B
	}
	if c.B == n {
		return c.A
	}
	return -1
}

func (c *Channel) spendable(n int) uint64 {
	if c.A == n {
		return c.BalA
	}
	if c.B == n {
		return c.BalB
	}
	return 0
}

func (c *Channel) move(from int, amt uint64, toPeer bool) {
	// deduct from `from`; if toPeer, credit the peer
	if c.A == from {
		c.BalA -= amt
		if toPeer {
			c.BalB += amt
		}
	} else {
		c.BalB -= amt
		if toPeer {
			c.BalA += amt
		}
	}
}

func (c *Channel) refund(to int, amt uint64) {
	if c.A == to {
		c.BalA += amt
	} else {
		c.BalB += amt
	}
}

// NewInvoice registers an invoice (called by node stubs and by the adversary).
func (l *SimLN) NewInvoice(payee int, amountMsat uint64, preimageHex string, label string, typ swap.InvoiceType, memo string, expirySec, cltv uint64) (*Invoice, error) {
	pre, err := hex.DecodeString(preimageHex)
	if err != nil || len(pre) != 32 {
		return nil, errors.New("bad preimage")
	}
	h := sha256.Sum256(pre)
	hash := hex.EncodeToString(h[:])
	if _, ok := l.Invoices[hash]; ok {
		return nil, errors.New("invoice with that payment hash already exists")
	}
	exp := l.w.Sim.Now() + time.Duration(expirySec)*time.Second
	inv := &Invoice{Hash: hash, Preimage: preimageHex, AmountMsat: amountMsat, Payee: payee, ExpiresAt: exp, FinalCLTV: int64(cltv), Label: label, Type: typ, Memo: memo, State: "open"}
	inv.Payreq = EncodePayreq(hash, amountMsat, int64(cltv), l.w.Nodes[payee].Pubkey, exp.Milliseconds(), label)
	l.Invoices[hash] = inv
	l.w.Observe(&Obs{Node: payee, Inc: l.w.Sim.Incarnation(payee), Kind: "invoice.new", Str: hash, Num: int64(amountMsat)})
	return inv, nil
}

// PaymentsFor returns payments by payer and hash.
func (l *SimLN) PaymentsFor(payer int, hash string) []*Payment {
	var out []*Payment
	for _, p := range l.Payments {
		if p.Payer == payer && p.Hash == hash {
			out = append(out, p)
		}
	}
	return out
}

func (l *SimLN) lnFault(idx int) *LNFault {
	if l.w.healing {
		return nil
	}
	for i := range l.w.Plan.LN {
		if l.w.Plan.LN[i].Idx == idx {
			return &l.w.Plan.LN[i]
		}
	}
	return nil
}

// Pay implements the outgoing-payment calls of the LightningClient stub.
// It runs in the calling node's task.
func (l *SimLN) Pay(n *Node, fn, payreq, scid string, maxCLTV uint32) (string, error) {
	return l.PayVia(n, &PayArgs{Fn: fn, Payreq: payreq, Scid: scid, MaxCLTV: maxCLTV})
}

// PayArgs describes one outgoing payment call. Lnd is set when the call is a
// SendPaymentV2 request emitted by the real lnd adapter (tier 2): the request
// itself then says which channel, which CLTV limit and how many parts.
type PayArgs struct {
	Fn      string
	Payreq  string
	Scid    string
	MaxCLTV uint32
	Lnd     *routerrpc.SendPaymentRequest
	Cln     *ClnRoute                // tier 3: the route of the sendpay call the real CLN adapter emitted
	Async   bool                     // return as soon as the HTLC is on its way (sendpay); Wait then blocks for its fate
	Wait    func() (string, error)   // set by PayVia when Async
}

// ClnRoute: the single hop of a sendpay route.
type ClnRoute struct {
	Hops       int
	Id         string // node id of the first hop
	Channel    string
	AmountMsat uint64
	Delay      uint32
	ReqMsat    uint64 // amount_msat of the request itself
	Parts      uint64 // partid
}

func (l *SimLN) PayVia(n *Node, a *PayArgs) (string, error) {
	fn, payreq, scid, maxCLTV := a.Fn, a.Payreq, a.Scid, a.MaxCLTV
	w := l.w
	f := n.op("ln.pay")
	l.payIdx++
	idx := l.payIdx
	po := &PayObs{Idx: idx, Payer: n.ID, Payreq: payreq, Scid: scid, Fn: fn, MaxCLTV: maxCLTV, BtcHeight: w.BTC.Height(), LHeight: w.LBTC.Height()}
	po.Cln = a.Cln
	if a.Lnd != nil {
		po.Lnd = &LndPayReq{OutgoingChanIds: append([]uint64(nil), a.Lnd.OutgoingChanIds...), OutgoingChanId: a.Lnd.OutgoingChanId, MaxParts: a.Lnd.MaxParts, CltvLimit: a.Lnd.CltvLimit,
			FeeLimitMsat: a.Lnd.FeeLimitMsat, AmtMsat: a.Lnd.AmtMsat, Amt: a.Lnd.Amt, TimeoutSeconds: a.Lnd.TimeoutSeconds, HasDest: len(a.Lnd.Dest) > 0, LastHopPubkey: len(a.Lnd.LastHopPubkey) > 0}
	}
	body, derr := DecodePayreqBody(payreq)
	if body != nil {
		po.Hash = body.H
	}
	w.Observe(&Obs{Node: n.ID, Inc: n.inc, Kind: "pay.call", Pay: po})
	finish := func(pre string, err error) (string, error) {
		r := *po
		r.Preimage = pre
		if err != nil {
			r.Err = err.Error()
		}
		n.checkAlive()
		w.Observe(&Obs{Node: n.ID, Inc: n.inc, Kind: "pay.result", Pay: &r})
		return pre, err
	}
	if f != nil && f.Kind == "err" {
		return finish("", errors.New("lightning rpc unavailable"))
	}
	if derr != nil {
		return finish("", derr)
	}
	ch := l.channel(scid)
	if ch == nil && a.Lnd != nil && scid == "" {
		// lnd request without a first hop: any active channel to the invoice's destination
		for _, k := range rt.SortedKeys(l.Channels) {
			if c := l.Channels[k]; c.Active && c.peerOf(n.ID) >= 0 && w.Nodes[c.peerOf(n.ID)].Pubkey == body.D {
				ch = c
				w.Probe("lnd:payment-without-first-hop")
			}
		}
	}
	if ch == nil || ch.peerOf(n.ID) < 0 || !ch.Active {
		if a.Lnd != nil {
			return finish("", errors.New("payment failure FAILURE_REASON_NO_ROUTE"))
		}
		return finish("", errors.New("channel not found"))
	}
	peer := ch.peerOf(n.ID)
	if a.Cln != nil && (a.Cln.Hops != 1 || a.Cln.Id != w.Nodes[peer].Pubkey) {
		// sendpay along a route that does not start with this channel's peer
		return finish("", errors.New("payment failure unknown_next_peer"))
	}
	if body.D != w.Nodes[peer].Pubkey {
		if a.Cln != nil {
			// the HTLC reaches the channel peer, which does not know this payment hash
			return finish("", errors.New("payment failure incorrect_or_unknown_payment_details"))
		}
		if a.Lnd != nil {
			// lnd would look for a route through the first hop to another node; the simulated
			// network has direct channels only
			return finish("", errors.New("payment failure FAILURE_REASON_NO_ROUTE"))
		}
		return finish("", errors.New("destination pubkey in invoice does not match remote pubkey of channel"))
	}
	// route CLTV the adapter's request permits (flavour formula; see DESIGN C05)
	permitted := uint32(body.C + 1)
	if n.Flavor == "lnd" {
		permitted = uint32(body.C + 3 + 1)
	}
	if a.Cln != nil {
		// the real route: one hop to Id over Channel with the given delay; lightningd sends
		// what it is told, the HTLC's CLTV is now + delay
		permitted = a.Cln.Delay
		if body.C < 0 || uint32(body.C) > a.Cln.Delay {
			// the final node refuses an HTLC whose expiry is below the invoice's min_final_cltv
			return finish("", errors.New("payment failure final_incorrect_cltv_expiry"))
		}
		maxCLTV = 0
	}
	if a.Lnd != nil {
		// the real request: lnd routes only within cltv_limit (0 = its own maximum of 2016
		// blocks); a direct payment needs the invoice's final delta plus lnd's block padding
		// (lnd: "cltv limit should be greater than final delta + block padding", i.e. a route's
		// total time lock has to stay strictly below cltv_limit)
		permitted = 2016
		if a.Lnd.CltvLimit > 0 {
			permitted = uint32(a.Lnd.CltvLimit) - 1
		}
		if body.C < 0 || uint32(body.C)+3 > permitted {
			return finish("", errors.New("payment failure FAILURE_REASON_NO_ROUTE"))
		}
		if len(a.Lnd.OutgoingChanIds) == 0 && a.Lnd.OutgoingChanId == 0 {
			// no first hop given: lnd picks any channel to the destination
			for _, k := range rt.SortedKeys(l.Channels) {
				if c := l.Channels[k]; c.peerOf(n.ID) == peer && c.Active {
					ch = c
				}
			}
		}
		maxCLTV = 0
	}
	if maxCLTV != 0 {
		req := uint32(body.C + 1)
		if n.Flavor == "lnd" {
			req = uint32(body.C + 3)
		}
		if body.C < 0 || req > maxCLTV {
			return finish("", fmt.Errorf("invoice requires CLTV delta %d, maximum is %d", req, maxCLTV))
		}
		if n.Flavor == "lnd" {
			permitted = maxCLTV + 1
		}
	}
	for _, p := range l.PaymentsFor(n.ID, body.H) {
		switch p.State {
		case "settled":
			if n.Flavor == "cln" {
				w.Probe("ln:repay-settled-cln")
				return finish(p.Preimage, nil)
			}
			w.Probe("ln:repay-settled-lnd")
			return finish("", errors.New("invoice is already paid"))
		case "pending":
			w.Probe("ln:repay-pending")
			return finish("", errors.New("payment is in transition"))
		}
	}
	if ch.spendable(n.ID) < body.A {
		return finish("", errors.New("not enough outbound capacity to pay invoice"))
	}
	p := &Payment{Idx: idx, Payer: n.ID, Payee: peer, Hash: body.H, AmountMsat: body.A, Scid: ch.Scid, State: "pending", Fn: fn,
		SentAtBTC: w.BTC.Height(), Permitted: permitted, Done: rt.NewEvent("pay"), Wake: rt.NewEvent("paywake")}
	l.Payments = append(l.Payments, p)
	ch.move(n.ID, body.A, false)
	w.Observe(&Obs{Node: n.ID, Inc: n.inc, Kind: "htlc.add", Str: body.H, Num: int64(body.A), Pay: po})

	lat := ms(w.Plan.Scn.LNLatencyMs)
	lf := l.lnFault(idx)
	kind := ""
	if lf != nil {
		kind = lf.Kind
		w.Probe("ln:" + kind)
		lat += ms(lf.DelayMs)
	}
	if f != nil && f.Kind == "errafter" {
		kind = "errpending-settle"
	}
	switch kind {
	case "fail":
		w.Sim.After(lat, "ln", fmt.Sprintf("fail#%d", idx), func() { l.failHTLC(p, "temporary_channel_failure") })
	case "errpending-settle":
		w.Sim.After(ms(30), "ln", fmt.Sprintf("release#%d", idx), func() { p.CallerErr = "rpc stream closed while payment in flight"; p.Released = true; p.Wake.Fire() })
		w.Sim.After(lat+ms(5000), "ln", fmt.Sprintf("resolve#%d", idx), func() { l.resolve(p) })
	case "errpending-fail":
		w.Sim.After(ms(30), "ln", fmt.Sprintf("release#%d", idx), func() { p.CallerErr = "rpc stream closed while payment in flight"; p.Released = true; p.Wake.Fire() })
		w.Sim.After(lat+ms(5000), "ln", fmt.Sprintf("fail#%d", idx), func() { l.failHTLC(p, "temporary_channel_failure") })
	case "hold":
		// payee holds the HTLC for a long time, then fails it
		w.Sim.After(lat+time.Duration(300)*time.Second, "ln", fmt.Sprintf("holdfail#%d", idx), func() { l.failHTLC(p, "held_then_failed") })
	default:
		w.Sim.After(lat, "ln", fmt.Sprintf("resolve#%d", idx), func() { l.resolve(p) })
	}
	wait := func() (string, error) {
		// block until resolved or released. (Both adapters wait without a deadline of their
		// own: lnd's payment stream stays open, and glightning's WaitSendPay bypasses the
		// client's 40 s request timeout. An earlier version of this model cut the CLN wait
		// off after 40 s; the adapter's code says otherwise.)
		p.Wake.Wait("ln.paywait")
		if !p.Done.Fired() {
			return finish("", errors.New(p.CallerErr))
		}
		if p.State == "settled" {
			return finish(p.Preimage, nil)
		}
		return finish("", fmt.Errorf("payment failure %s", p.Reason))
	}
	if a.Async {
		// sendpay / waitsendpay (tier 3): the caller comes back for the result
		a.Wait = wait
		return "", ErrPayStarted
	}
	return wait()
}

// ErrPayStarted: PayVia with Async set has put the HTLC on its way; PayArgs.Wait blocks for its fate.
var ErrPayStarted = errors.New("payment started")

// resolve is the payee side deciding about an HTLC.
func (l *SimLN) resolve(p *Payment) {
	w := l.w
	if p.State != "pending" {
		return
	}
	inv := l.Invoices[p.Hash]
	if inv == nil {
		l.failHTLC(p, "incorrect_or_unknown_payment_details")
		return
	}
	if inv.Payee != p.Payee {
		l.failHTLC(p, "incorrect_or_unknown_payment_details")
		return
	}
	if w.Nodes[inv.Payee].Kind == "adv" && w.Adv != nil {
		switch w.Adv.onHTLC(p, inv) {
		case "fail":
			l.failHTLC(p, "incorrect_or_unknown_payment_details")
			return
		case "hold":
			// a hostile payee sits on the HTLC (it may still settle it later: it
			// knows the preimage), which is legal until the HTLC's CLTV expiry
			if !p.held {
				p.held = true
				w.Probe("ln:adv-holds-htlc")
				w.Sim.After(400*time.Second, "ln", fmt.Sprintf("advhold#%d", p.Idx), func() { l.resolve(p) })
				return
			}
		}
	} else {
		if inv.State != "open" || w.Sim.Now() >= inv.ExpiresAt || inv.AmountMsat != p.AmountMsat {
			l.failHTLC(p, "incorrect_or_unknown_payment_details")
			return
		}
	}
	inv.State = "settled"
	inv.SettledAt = w.Sim.Now()
	p.State = "settled"
	p.Preimage = inv.Preimage
	ch := l.Channels[p.Scid]
	ch.refund(p.Payee, p.AmountMsat)
	w.Observe(&Obs{Node: p.Payer, Kind: "htlc.settle", Str: p.Hash, Num: int64(p.AmountMsat)})
	p.Done.Fire()
	p.Wake.Fire()
	l.fireNotifiers(inv)
	if w.Nodes[inv.Payee].Kind == "adv" && w.Adv != nil {
		w.Adv.onInvoicePaid(inv)
	}
}

// AdvPay lets the adversary (payer) pay an invoice; runs in scheduler context
// and reports the outcome through done.
func (l *SimLN) AdvPay(payer int, payreq, scid string, done func(preimage string, ok bool)) {
	w := l.w
	body, err := DecodePayreqBody(payreq)
	ch := l.channel(scid)
	if err != nil || ch == nil || ch.peerOf(payer) < 0 || ch.spendable(payer) < body.A {
		done("", false)
		return
	}
	for _, p := range l.PaymentsFor(payer, body.H) {
		if p.State != "failed" {
			done("", false)
			return
		}
	}
	l.payIdx++
	p := &Payment{Idx: l.payIdx, Payer: payer, Payee: ch.peerOf(payer), Hash: body.H, AmountMsat: body.A, Scid: ch.Scid, State: "pending", Fn: "adv",
		SentAtBTC: w.BTC.Height(), Done: rt.NewEvent("pay"), Wake: rt.NewEvent("paywake")}
	l.Payments = append(l.Payments, p)
	ch.move(payer, body.A, false)
	w.Observe(&Obs{Node: payer, Kind: "htlc.add", Str: body.H, Num: int64(body.A), Pay: &PayObs{Idx: p.Idx, Payer: payer, Payreq: payreq, Hash: body.H, Scid: scid, Fn: "adv"}})
	w.Sim.After(ms(w.Plan.Scn.LNLatencyMs), "ln", fmt.Sprintf("resolve#%d", p.Idx), func() {
		l.resolve(p)
		done(p.Preimage, p.State == "settled")
	})
}

func (l *SimLN) failHTLC(p *Payment, reason string) {
	if p.State != "pending" {
		return
	}
	p.State = "failed"
	p.Reason = reason
	l.Channels[p.Scid].refund(p.Payer, p.AmountMsat)
	l.w.Observe(&Obs{Node: p.Payer, Kind: "htlc.fail", Str: p.Hash, Num: int64(p.AmountMsat)})
	p.Done.Fire()
	p.Wake.Fire()
}

// OnSettle registers a listener for the settlement of an invoice (the simulated
// lnd's SubscribeSingleInvoice); called right away (a little later) if it is settled already.
func (l *SimLN) OnSettle(hash string, fn func(inv *Invoice)) {
	if l.settleSubs == nil {
		l.settleSubs = map[string][]func(*Invoice){}
	}
	l.settleSubs[hash] = append(l.settleSubs[hash], fn)
	if inv := l.Invoices[hash]; inv != nil && inv.State == "settled" {
		l.w.Sim.After(ms(5), "ln", "notify-settled", func() { fn(inv) })
	}
}

func (l *SimLN) fireNotifiers(inv *Invoice) {
	w := l.w
	subs := l.settleSubs[inv.Hash]
	delete(l.settleSubs, inv.Hash)
	for _, fn := range subs {
		fn(inv)
	}
	for _, nf := range l.notif[inv.Hash] {
		if nf.fired {
			continue
		}
		n := w.Nodes[nf.node]
		if !n.Up || n.inc != nf.inc {
			continue
		}
		nf.fired = true
		nfc := nf
		w.Sim.Spawn(n.ID, "paycb", func() {
			n.checkAlive()
			if cb := n.payCb; cb != nil {
				cb(nfc.swapID, nfc.typ)
			}
		})
	}
}

// AddNotifier registers interest of a node in an invoice being paid.
func (l *SimLN) AddNotifier(n *Node, swapID, payreq string, typ swap.InvoiceType) {
	body, err := DecodePayreqBody(payreq)
	if err != nil {
		return
	}
	if n.Flavor == "lnd" {
		// lnd's PaymentWatcher de-duplicates per payreq
		for _, nf := range l.notif[body.H] {
			if nf.node == n.ID && nf.inc == n.inc && !nf.fired {
				return
			}
		}
	}
	nf := &notifier{node: n.ID, inc: n.inc, swapID: swapID, typ: typ}
	l.notif[body.H] = append(l.notif[body.H], nf)
	if inv := l.Invoices[body.H]; inv != nil && inv.State == "settled" {
		// already paid: the back-end reports it right away
		l.w.Sim.After(ms(5), "ln", "notify-settled", func() { l.fireNotifiers(inv) })
	}
}

// Recover implements RecoverClaimPayment: follow an existing payment only.
func (l *SimLN) Recover(n *Node, payreq string) (string, error) {
	body, err := DecodePayreqBody(payreq)
	if err != nil {
		n.op("ln.recover")
		return "", err
	}
	return l.recover(n, payreq, body.H, nil)
}

// RecoverHash is Recover by payment hash (lnd's TrackPaymentV2).
func (l *SimLN) RecoverHash(n *Node, hash string) (string, error) { return l.recover(n, "", hash, nil) }

// RecoverHashCtx is RecoverHash for a caller whose request carries a deadline (lnd: the
// context of the TrackPaymentV2 call): the wait for a pending HTLC ends with the deadline.
func (l *SimLN) RecoverHashCtx(ctx context.Context, n *Node, hash string) (string, error) {
	return l.recover(n, "", hash, ctx)
}

// ErrRecoverDeadline: the caller's deadline passed while the payment was still pending.
var ErrRecoverDeadline = errors.New("context deadline exceeded")

func (l *SimLN) recover(n *Node, payreq, hash string, ctx context.Context) (string, error) {
	w := l.w
	f := n.op("ln.recover")
	var err error
	body := &payreqBody{H: hash}
	po := &PayObs{Payer: n.ID, Payreq: payreq, Fn: "RecoverClaimPayment", BtcHeight: w.BTC.Height(), LHeight: w.LBTC.Height()}
	if body != nil {
		po.Hash = body.H
	}
	w.Observe(&Obs{Node: n.ID, Inc: n.inc, Kind: "pay.recover", Pay: po})
	if f != nil && f.Kind == "err" {
		return "", errors.New("lightning rpc unavailable")
	}
	if err != nil {
		return "", err
	}
	ps := l.PaymentsFor(n.ID, body.H)
	if len(ps) == 0 {
		return "", errors.New("claim payment was not found")
	}
	for _, p := range ps {
		if p.State == "settled" {
			return p.Preimage, nil
		}
	}
	for _, p := range ps {
		if p.State == "pending" {
			// CLN: waitsendpay; LND: TrackPaymentV2 with NoInflightUpdates streams
			// only the final update, so the first Recv blocks until the fate is known
			if dl, ok := deadlineOf(ctx); ok {
				if left := time.Until(dl); left <= 0 || !p.Done.WaitTimeout("ln.recoverwait", left) {
					n.checkAlive()
					if !p.Done.Fired() {
						l.w.Probe("ln:recover-wait-ended-by-deadline")
						return "", ErrRecoverDeadline
					}
				}
			} else {
				p.Done.Wait("ln.recoverwait")
			}
			n.checkAlive()
			if p.State == "settled" {
				return p.Preimage, nil
			}
			return "", errors.New("payment failed")
		}
	}
	return "", errors.New("claim payment already failed")
}

// HasLiveHTLC reports whether payer has a pending or settled HTLC for hash.
func (l *SimLN) HasLiveHTLC(payer int, hash string) (pending, settled bool) {
	for _, p := range l.PaymentsFor(payer, hash) {
		if p.State == "pending" {
			pending = true
		}
		if p.State == "settled" {
			settled = true
		}
	}
	return
}

func deadlineOf(ctx context.Context) (time.Time, bool) {
	if ctx == nil {
		return time.Time{}, false
	}
	return ctx.Deadline()
}
