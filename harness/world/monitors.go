package world

import (
	"bytes"
	"encoding/base64"
	"encoding/hex"
	"encoding/json"
	"fmt"
	"reflect"
	"sort"
	"strings"
	"time"

	"github.com/elementsproject/peerswap/swap"
)

// Each monitor evaluates exactly one property's oracle against ground truth
// held by the simulated world. Signatures identify the failure class.

type base struct{ tr *Tracker }

func (b *base) Final(w *World)         {}
func (b *base) OnObs(w *World, o *Obs) {}

// MonitorsFor returns the tracker plus the monitors of one property.
func MonitorsFor(prop string) func() []Monitor {
	return func() []Monitor {
		tr := NewTracker()
		ms := []Monitor{tr}
		switch prop {
		case "C06":
			ms = append(ms, &monC06{base: base{tr}})
		case "C07":
			ms = append(ms, &monC07{base: base{tr}, opened: map[string]*openInfo{}})
		case "C09":
			ms = append(ms, &monC09{base: base{tr}, inflight: map[string]*c09msg{}})
		case "C10":
			ms = append(ms, &monC10{base: base{tr}})
		case "C13":
			ms = append(ms, &monC13{base: base{tr}, anchor: map[string]uint32{}})
		case "C14":
			ms = append(ms, &monC14{base: base{tr}})
		case "C15":
			ms = append(ms, &monC15{base: base{tr}, openings: map[string][]string{}, firstMsg: map[string][]byte{}, cancelSent: map[string]time.Duration{}})
		case "C16":
			ms = append(ms, &monC16{base: base{tr}})
		case "C17":
			ms = append(ms, &monC17{base: base{tr}})
		case "C18":
			ms = append(ms, &monC18{base: base{tr}})
		case "C21":
			ms = append(ms, &monC21{base: base{tr}})
		case "C22":
			ms = append(ms, &monC22{base: base{tr}, sends: map[string][]time.Duration{}})
		case "C23":
			ms = append(ms, &monC23{base: base{tr}})
		}
		ms = append(ms, extraMonitors(prop, tr)...)
		return ms
	}
}

func isReal(w *World, node int) bool { return node >= 0 && node < len(w.Nodes) && w.Nodes[node].Real }

// ---------------------------------------------------------------------------
// C13 — Liquid anchor durably stored before the taker's pubkey leaves; never
// changed; a swap without a stored anchor never pays.

type monC13 struct {
	base
	anchor map[string]uint32 // node/id -> first stored anchor
}

func (m *monC13) Name() string { return "C13" }

func liquidV7(payload []byte) (bool, string) {
	var q struct {
		V     int    `json:"protocol_version"`
		Asset string `json:"asset"`
		Net   string `json:"network"`
		Pub   string `json:"pubkey"`
	}
	if json.Unmarshal(payload, &q) != nil {
		return false, ""
	}
	return q.V == 7 && q.Asset != "" && q.Net == "", q.Pub
}

func (m *monC13) OnObs(w *World, o *Obs) {
	switch o.Kind {
	case "send":
		if !isReal(w, o.Node) {
			return
		}
		mo := o.Msg
		var isL bool
		switch mo.Type {
		case MsgSwapOutRequest:
			isL, _ = liquidV7(mo.Payload)
		case MsgSwapInAgreement:
			// chain is known from the stored request
			if r := w.FreshRec(o.Node, mo.SwapID); r != nil && r.Chain() == "lbtc" && r.Request() != nil && r.Request().ProtocolVersion == 7 {
				isL = true
			} else if r == nil {
				isL = false
				// an agreement for a swap without any stored record: judge as Liquid only if the tracker knows it
			}
		default:
			return
		}
		if !isL {
			return
		}
		w.Probe("C13:pubkey-sent")
		r := w.FreshRec(o.Node, mo.SwapID)
		if r == nil || !r.Data.AnchorSet {
			st := "none"
			if r != nil {
				st = r.Current
			}
			w.Violate("C13", "pubkey-before-anchor:"+MsgName(mo.Type), "node %d sent %s (its swap pubkey) for liquid swap %.8s while the stored record (state %s) has no anchor", o.Node, MsgName(mo.Type), mo.SwapID, st)
		}
	case "store.write":
		if o.Store.Raw == nil {
			return
		}
		r := DecodeRec(o.Store.Raw)
		if r == nil || r.Chain() != "lbtc" || r.Request() == nil || r.Request().ProtocolVersion != 7 || !r.IsTaker() {
			return
		}
		key := fmt.Sprintf("%d/%s", o.Node, r.SwapID)
		if first, ok := m.anchor[key]; ok {
			if !r.Data.AnchorSet || r.Data.StartingBlockHeight != first {
				w.Violate("C13", "anchor-changed:"+shortState(r.Current), "node %d swap %.8s: stored anchor changed from %d to %d (set=%v) in state %s", o.Node, r.SwapID, first, r.Data.StartingBlockHeight, r.Data.AnchorSet, r.Current)
			}
		} else if r.Data.AnchorSet {
			m.anchor[key] = r.Data.StartingBlockHeight
			w.Probe("C13:anchor-stored")
		}
	case "htlc.add":
		if o.Pay == nil || o.Pay.Fn != "RebalancePayment" || !isReal(w, o.Node) {
			return
		}
		si := m.tr.ByClaimHash(o.Node, o.Pay.Hash)
		if si == nil || si.Rec.Chain() != "lbtc" || si.Rec.Request().ProtocolVersion != 7 {
			return
		}
		w.Probe("C13:liquid-pay")
		r := w.FreshRec(o.Node, si.ID)
		if r == nil || !r.Data.AnchorSet {
			w.Violate("C13", "pay-without-anchor", "node %d paid the claim invoice of liquid swap %.8s without a stored anchor", o.Node, si.ID)
		}
	}
}

// ---------------------------------------------------------------------------
// C06 — a taker never reveals its key once its claim payment may have gone out.

type monC06 struct {
	base
	revealed map[string]bool // node/swap: a key reveal with a live payment was already reported
}

func (m *monC06) Name() string { return "C06" }

func (m *monC06) OnObs(w *World, o *Obs) {
	if o.Kind != "send" || o.Msg.Type != MsgCoopClose || !isReal(w, o.Node) {
		return
	}
	w.Probe("C06:coop_close-sent")
	r := w.FreshRec(o.Node, o.Msg.SwapID)
	if r == nil {
		if si := m.tr.Get(o.Node, o.Msg.SwapID); si != nil {
			r = si.Rec
		}
	}
	if r == nil {
		return
	}
	h := r.ClaimHash()
	if h == "" {
		return
	}
	pending, settled := w.LN.HasLiveHTLC(o.Node, h)
	if pending || settled {
		if m.revealed == nil {
			m.revealed = map[string]bool{}
		}
		m.revealed[fmt.Sprintf("%d/%s", o.Node, r.SwapID)] = true
	}
	if settled {
		w.Probe("C06:coop_close-after-settled")
		w.Violate("C06", "coop_close-after-payment-settled:"+shortState(r.Previous)+">"+shortState(r.Current), "node %d sent coop_close (revealing its swap key) for swap %.8s although its claim payment %.8s has settled (state %s<-%s)", o.Node, r.SwapID, h, r.Current, r.Previous)
	} else if pending {
		w.Probe("C06:coop_close-while-pending")
		w.Violate("C06", "coop_close-while-payment-pending:"+shortState(r.Previous)+">"+shortState(r.Current), "node %d sent coop_close for swap %.8s while its claim payment %.8s is still in flight (state %s<-%s)", o.Node, r.SwapID, h, r.Current, r.Previous)
	}
}

func (m *monC06) Final(w *World) {
	if !w.Plan.Heal.On {
		return
	}
	// progress: a settled claim payment is followed by a preimage claim of the output
	for _, p := range w.LN.Payments {
		if p.State != "settled" || p.Fn != "RebalancePayment" || !isReal(w, p.Payer) {
			continue
		}
		si := m.tr.ByClaimHash(p.Payer, p.Hash)
		if si == nil || si.Rec.Data.OpeningTxBroadcasted == nil {
			continue
		}
		n := w.Nodes[p.Payer]
		if !n.Up {
			continue
		}
		c := w.BTC
		if si.Rec.Chain() == "lbtc" {
			c = w.LBTC
		}
		var so *SwapOutput
		for _, x := range c.SwapByTx(si.Rec.Data.OpeningTxBroadcasted.TxID) {
			so = x
		}
		if so == nil {
			continue // opening not a real swap output (adversarial); C01 territory
		}
		w.Probe("C06:paid-swap-checked")
		if m.revealed[fmt.Sprintf("%d/%s", p.Payer, si.ID)] {
			continue // the key reveal was reported when it happened; this is its consequence
		}
		if so.SpentBy == "" || so.SpendPath != "preimage" {
			cause := ""
			if strings.HasSuffix(si.Rec.Current, "_ClaimSwap") {
				// still in the claiming state: is the node still trying?
				site := "btcwallet.spend"
				if si.Rec.Chain() == "lbtc" {
					site = "lwallet.sendraw"
				}
				if last, ok := w.LastSiteAt(p.Payer, site); ok && w.Sim.Now()-last > 15*time.Minute {
					cause = ":stopped-trying"
				}
			}
			w.Violate("C06", "paid-but-never-claimed:"+shortState(si.Rec.Current)+cause,"node %d paid claim invoice of swap %.8s but the opening output is not claimed with the preimage after the heal phase (state %s, spentBy=%q path=%q)", p.Payer, si.ID, si.Rec.Current, so.SpentBy, so.SpendPath)
		}
	}
}

// ---------------------------------------------------------------------------
// C15 — restarts never duplicate an opening tx or a payment; re-sent
// requests/agreements are identical.

type monC15 struct {
	base
	openings map[string][]string // node/swapid -> opening txids
	firstMsg map[string][]byte   // node/swapid/type -> payload
	cancelSent map[string]time.Duration // node/swapid -> when the node first sent cancel for a swap it has a record of
}

func invoiceKind(inv *Invoice) string {
	if inv.Type == swap.INVOICE_FEE {
		return "fee"
	}
	return "claim"
}

func (m *monC15) Name() string { return "C15" }

func (m *monC15) OnObs(w *World, o *Obs) {
	switch o.Kind {
	case "wallet.opening":
		// map to the swap via the payment hash locked in the output
		c := w.BTC
		if o.Tx.Chain == "lbtc" {
			c = w.LBTC
		}
		for _, so := range c.SwapByTx(o.Tx.TxID) {
			inv := w.LN.Invoices[so.PayHash]
			if inv == nil {
				continue
			}
			key := fmt.Sprintf("%d/%s", o.Node, inv.Label)
			m.openings[key] = append(m.openings[key], o.Tx.TxID)
			if len(m.openings[key]) > 1 {
				w.Probe("C15:second-opening")
				w.Violate("C15", "second-opening-tx", "node %d broadcast %d opening transactions for swap %.8s: %v", o.Node, len(m.openings[key]), inv.Label, m.openings[key])
			}
		}
	case "htlc.add":
		if !isReal(w, o.Node) || o.Pay == nil {
			return
		}
		// the node told its peer that this swap is cancelled (its own record of the swap existed
		// when it did) and pays one of the swap's invoices afterwards - fee or claim invoice
		if inv := w.LN.Invoices[o.Pay.Hash]; inv != nil && inv.Label != "" {
			if at, ok := m.cancelSent[fmt.Sprintf("%d/%s", o.Node, inv.Label)]; ok {
				w.Violate("C15", "pay-after-cancel-sent:"+invoiceKind(inv), "node %d started a payment of the %s invoice of swap %.8s at %v although it had sent cancel for that swap at %v", o.Node, invoiceKind(inv), inv.Label, o.T, at)
			}
		}
		si := m.tr.ByClaimHash(o.Node, o.Pay.Hash)
		if si == nil {
			return
		}
		// paid after cancel?
		r := w.FreshRec(o.Node, si.ID)
		if r != nil && r.Current == "State_SwapCanceled" {
			w.Violate("C15", "pay-after-cancel-state", "node %d started a claim payment for swap %.8s whose record is already canceled", o.Node, si.ID)
		}
		n := 0
		for _, p := range w.LN.PaymentsFor(o.Node, o.Pay.Hash) {
			if p.State == "settled" {
				n++
			}
		}
		if n > 0 {
			w.Violate("C15", "second-payment", "node %d started another HTLC for invoice %.8s that it has already paid", o.Node, o.Pay.Hash)
		}
	case "send":
		if !isReal(w, o.Node) {
			return
		}
		t := o.Msg.Type
		if t == MsgCancel {
			// counts only when the node has a record of that swap: a cancel that refuses somebody
			// else's request (busy channel, premium, balance) is not the end of a swap of ours
			if m.tr.Get(o.Node, o.Msg.SwapID) != nil {
				if _, ok := m.cancelSent[fmt.Sprintf("%d/%s", o.Node, o.Msg.SwapID)]; !ok {
					m.cancelSent[fmt.Sprintf("%d/%s", o.Node, o.Msg.SwapID)] = o.T
				}
			}
			return
		}
		if t != MsgSwapInRequest && t != MsgSwapOutRequest && t != MsgSwapInAgreement && t != MsgSwapOutAgreement {
			return
		}
		key := fmt.Sprintf("%d/%s/%d", o.Node, o.Msg.SwapID, t)
		if first, ok := m.firstMsg[key]; ok {
			w.Probe("C15:resend")
			if !bytes.Equal(first, o.Msg.Payload) {
				w.Violate("C15", "resent-"+MsgName(t)+"-differs", "node %d re-sent %s for swap %.8s with different parameters:\n first: %s\n now:   %s", o.Node, MsgName(t), o.Msg.SwapID, first, o.Msg.Payload)
			}
		} else {
			m.firstMsg[key] = o.Msg.Payload
		}
	}
}

// ---------------------------------------------------------------------------
// C07 — a maker's locked funds are never abandoned.

type openInfo struct {
	node     int
	chain    string
	txid     string
	at       time.Duration
	inc      int  // incarnation of the node that broadcast it
	faults   int  // service faults that had fired at the node before the broadcast call
	recorded bool // some store write of the node has named this transaction
	windowClosed bool // the node completed a store write after the broadcast (same incarnation)
	disturbed    bool // a service fault fired at the node inside that window
}

type monC07 struct {
	base
	opened map[string]*openInfo // txid -> info
}

func (m *monC07) Name() string { return "C07" }

func (m *monC07) recordFor(w *World, node int, txid string) *Rec {
	n := w.Nodes[node]
	for _, raw := range n.AllRaw() {
		if r := DecodeRec(raw); r != nil && r.Data.OpeningTxBroadcasted != nil && r.Data.OpeningTxBroadcasted.TxID == txid {
			return r
		}
	}
	return nil
}

func (m *monC07) outputOf(w *World, oi *openInfo) *SwapOutput {
	c := w.BTC
	if oi.chain == "lbtc" {
		c = w.LBTC
	}
	for _, so := range c.SwapByTx(oi.txid) {
		return so
	}
	return nil
}

func (m *monC07) resolved(w *World, oi *openInfo) (bool, string) {
	so := m.outputOf(w, oi)
	if so == nil {
		return true, "not-a-swap-output"
	}
	if inv := w.LN.Invoices[so.PayHash]; inv != nil && inv.State == "settled" {
		return true, "invoice-paid"
	}
	c := w.BTC
	if oi.chain == "lbtc" {
		c = w.LBTC
	}
	if so.SpentBy != "" {
		if tx := c.Txs[so.SpentBy]; tx != nil && tx.By == oi.node && so.SpendPath != "preimage" {
			return true, "refunded-" + so.SpendPath
		}
	}
	return false, ""
}

func (m *monC07) checkRecords(w *World, node int, when string) {
	if w.Nodes[node].db == nil {
		return
	}
	for _, oi := range m.opened {
		if oi.node != node {
			continue
		}
		if ok, _ := m.resolved(w, oi); ok {
			continue
		}
		if m.recordFor(w, node, oi.txid) == nil {
			w.Probe("C07:opening-without-record")
			// what kind of loss is it? a record that was written and is gone again, a record never
			// written although nothing disturbed the node, or the window between the wallet
			// broadcast and the first write being hit by a crash or a failing service call
			class := "never-recorded:undisturbed"
			disturbed := oi.disturbed
			if !oi.windowClosed {
				// the node has not completed a store write since the broadcast
				disturbed = w.Sim.Incarnation(node) != oi.inc || w.FaultsFired[node] > oi.faults
			}
			if oi.recorded {
				class = "record-lost"
			} else if disturbed {
				class = "never-recorded:after-crash-or-fault"
			}
			w.Violate("C07", "opening-without-record:"+class+":"+when, "node %d broadcast opening tx %.12s (%s) but holds no durable record naming it at %s (%s)", node, oi.txid, oi.chain, when, class)
		}
	}
}

func (m *monC07) OnObs(w *World, o *Obs) {
	switch o.Kind {
	case "wallet.opening":
		// faults that fired at the node up to now do not count, except the one (if any) that
		// accompanies this very broadcast (lost acknowledgement): hence the -1 when it is flagged
		m.opened[o.Tx.TxID] = &openInfo{node: o.Node, chain: o.Tx.Chain, txid: o.Tx.TxID, at: o.T, inc: w.Sim.Incarnation(o.Node), faults: w.FaultsFired[o.Node]}
		if o.Tx.Err != "" && m.opened[o.Tx.TxID].faults > 0 {
			m.opened[o.Tx.TxID].faults--
		}
	case "store.write":
		if o.Store.Raw == nil {
			return
		}
		if o.Store.Err == "" {
			// the window between a wallet broadcast and the node's next completed write closes here
			for _, oi := range m.opened {
				if oi.node == o.Node && !oi.windowClosed && w.Sim.Incarnation(o.Node) == oi.inc {
					oi.windowClosed = true
					oi.disturbed = w.FaultsFired[o.Node] > oi.faults
				}
			}
		}
		r := DecodeRec(o.Store.Raw)
		if r != nil && r.Data.OpeningTxBroadcasted != nil {
			if oi := m.opened[r.Data.OpeningTxBroadcasted.TxID]; oi != nil && oi.node == o.Node {
				oi.recorded = true
			}
		}
		if r == nil || !r.Terminal() {
			return
		}
		// this swap's record is terminal: were funds locked for it?
		for _, oi := range m.opened {
			if oi.node != o.Node {
				continue
			}
			so := m.outputOf(w, oi)
			if so == nil {
				continue
			}
			inv := w.LN.Invoices[so.PayHash]
			if inv == nil || inv.Label != r.SwapID {
				continue
			}
			if ok, _ := m.resolved(w, oi); !ok {
				w.Probe("C07:terminal-with-locked-funds")
				hasRec := "with-record"
				if r.Data.OpeningTxBroadcasted == nil {
					hasRec = "no-record"
				}
				w.Violate("C07", "finished-with-funds-locked:"+shortState(r.Previous)+">"+shortState(r.Current)+":"+hasRec, "node %d finished swap %.8s in %s (from %s) although its opening output %.12s:%d is neither paid for nor spent back (%s)", o.Node, r.SwapID, r.Current, r.Previous, so.TxID, so.Vout, hasRec)
			}
		}
	case "crash":
		// at the crash instant the db has just been closed; reopen read-only is
		// not needed: the check runs when the node is up again (boot.done).
	case "boot.done":
		m.checkRecords(w, o.Node, "restart")
	}
}

func (m *monC07) Final(w *World) {
	for _, n := range w.Nodes {
		if n.Real {
			m.checkRecords(w, n.ID, "end")
		}
	}
	if !w.Plan.Heal.On {
		return
	}
	// refund liveness: CSV matured and invoice unpaid => refund is in the chain
	for _, oi := range m.opened {
		if !w.Nodes[oi.node].Up {
			continue
		}
		so := m.outputOf(w, oi)
		if so == nil {
			continue
		}
		c := w.BTC
		if oi.chain == "lbtc" {
			c = w.LBTC
		}
		if c.Confirmations(so.TxID) < so.CSV+5 {
			continue
		}
		w.Probe("C07:csv-matured-checked")
		if ok, _ := m.resolved(w, oi); !ok {
			r := m.recordFor(w, oi.node, oi.txid)
			if r == nil {
				// no record: reported by checkRecords above under its own signature; a node that
				// does not know the output cannot refund it, that is the same defect
				continue
			}
			st := shortState(r.Current)
			// a state machine whose last store write returned an error stops where it is (the
			// event its action produced is dropped; later events find a state that does not take
			// them) until the next restart - a cause of its own, with its own signature
			for _, x := range w.Obs {
				if x.Kind == "store.write" && x.Node == oi.node && x.Store != nil && x.Store.SwapID == r.SwapID && x.Store.Failed && x.Inc == w.Nodes[oi.node].inc {
					st += ":frozen-after-store-error"
					break
				}
			}
			w.Violate("C07", "csv-matured-no-refund:"+st, "node %d: opening output %.12s:%d is %d blocks deep (CSV %d), the invoice is unpaid, and no refund was broadcast after the heal phase (record state: %s)", oi.node, so.TxID, so.Vout, c.Confirmations(so.TxID), so.CSV, st)
		}
	}
}

// ---------------------------------------------------------------------------
// C10 — at most one active swap per channel.

type monC10 struct{ base }

func (m *monC10) Name() string { return "C10" }

func (m *monC10) check(w *World, node int) {
	n := w.Nodes[node]
	if n.db == nil {
		return
	}
	per := map[string][]string{}
	for _, raw := range n.AllRaw() {
		r := DecodeRec(raw)
		if r == nil || r.Terminal() || r.Request() == nil {
			continue
		}
		k := NormScid(r.Request().Scid)
		per[k] = append(per[k], fmt.Sprintf("%.8s(%s,%s)", r.SwapID, r.Request().Scid, shortState(r.Current)))
	}
	for scid, l := range per {
		if len(l) > 1 {
			sort.Strings(l)
			w.Probe("C10:two-active")
			w.Violate("C10", "two-active-swaps-on-channel", "node %d has %d non-terminal swaps on channel %s: %v", node, len(l), scid, l)
		}
	}
}

func (m *monC10) OnObs(w *World, o *Obs) {
	if o.Kind == "store.write" && o.Store.Raw != nil {
		m.check(w, o.Node)
	}
}

func (m *monC10) Final(w *World) {
	for _, n := range w.Nodes {
		if n.Real {
			m.check(w, n.ID)
		}
	}
}

// ---------------------------------------------------------------------------
// C16 — every swap terminates (heal phase: peer silent or not, chain advances,
// services work, restarts from time to time).

type monC16 struct{ base }

func (m *monC16) Name() string { return "C16" }

func (m *monC16) Final(w *World) {
	if !w.Plan.Heal.On {
		return
	}
	for _, n := range w.Nodes {
		if !n.Real || n.db == nil {
			continue
		}
		for _, raw := range n.AllRaw() {
			r := DecodeRec(raw)
			if r == nil {
				continue
			}
			w.Probe("C16:swap-checked")
			if !r.Terminal() {
				role := "responder"
				if r.Role == 1 {
					role = "initiator"
				}
				typ := "out"
				if r.IsSwapIn() {
					typ = "in"
				}
				w.Violate("C16", "stuck:swap-"+typ+"-"+role+":"+shortState(r.Current)+stuckCause(w, r),"node %d: swap %.8s (swap-%s %s, %s) is still in %s after the heal phase (chain advanced past every deadline, %d restarts)", n.ID, r.SwapID, typ, role, r.Chain(), r.Current, w.Probes["heal:restart"])
			}
		}
	}
}

// ---------------------------------------------------------------------------
// C17 — negotiation waits are bounded (10 minutes), also after restarts.

type monC17 struct{ base }

func (m *monC17) Name() string { return "C17" }

const negotiationTimeout = 10 * time.Minute
const c17Slack = 45 * time.Second

func (m *monC17) Final(w *World) {
	now := w.Sim.Now()
	for node, swaps := range m.tr.Swaps {
		if !isReal(w, node) {
			continue
		}
		for _, si := range swaps {
			r := si.Rec
			if r == nil {
				continue
			}
			if r.Role == 1 {
				// requester: did an agreement reach it within the timeout?
				agreeType := MsgSwapOutAgreement
				if r.IsSwapIn() {
					agreeType = MsgSwapInAgreement
				}
				got := false
				for _, o := range w.Obs {
					if o.Kind == "deliver" && o.Node == node && o.Msg.SwapID == si.ID && (o.Msg.Type == agreeType || o.Msg.Type == MsgCancel) && o.T <= si.FirstSeen+negotiationTimeout {
						got = true
					}
				}
				if got || r.Data.SwapOutAgreement != nil || r.Data.SwapInAgreement != nil {
					continue
				}
				deadline := si.FirstSeen + negotiationTimeout + c17Slack
				// if the node was down at the deadline, allow until it was up again for the slack
				deadline = m.extendForDowntime(w, node, si.FirstSeen, deadline)
				if now < deadline && si.TerminalAt == 0 {
					continue // still inside its bound and not finished: nothing to judge yet
				}
				w.Probe("C17:requester-checked")
				cancelSent := false
				for _, o := range w.Obs {
					if o.Kind == "send" && o.Node == node && o.Msg.SwapID == si.ID && o.Msg.Type == MsgCancel && o.T <= deadline {
						cancelSent = true
					}
				}
				typ := "out"
				if r.IsSwapIn() {
					typ = "in"
				}
				cur := w.FreshRec(node, si.ID)
				if cur == nil {
					cur = r
				}
				if !cur.Terminal() || (si.TerminalAt > deadline) {
					w.Violate("C17", "requester-not-cancelled:swap-"+typ+":"+shortState(cur.Current), "node %d: swap-%s request %.8s got no agreement, yet %v after creation the swap is in %s (terminal at %v)", node, typ, si.ID, now-si.FirstSeen, cur.Current, si.TerminalAt)
				} else if !cancelSent && !m.neverReachedPeer(w, node, si) {
					// from which persisted state did the requester give up? (a request that went out
					// in the instant before a crash, with the state that sends it not yet on disk, is
					// a different situation from one the node knows it has sent)
					from := "?"
					if k := len(si.States); k >= 2 {
						from = shortState(si.States[k-2])
					}
					w.Violate("C17", "requester-no-cancel-message:swap-"+typ+":after:"+from, "node %d: swap-%s request %.8s (which reached the peer) was given up in state %s without a cancel being sent to the peer", node, typ, si.ID, from)
				}
			} else if !r.IsSwapIn() && r.Role == 2 && r.Data.SwapOutAgreement != nil {
				// swap-out responder: fee invoice unpaid at expiry => failed + cancel
				b, err := DecodePayreqBody(r.Data.SwapOutAgreement.Payreq)
				if err != nil {
					continue
				}
				inv := w.LN.Invoices[b.H]
				if inv == nil || inv.State == "settled" {
					continue
				}
				deadline := inv.ExpiresAt + c17Slack
				deadline = m.extendForDowntime(w, node, si.FirstSeen, deadline)
				if now < deadline {
					continue
				}
				// a cancel from the peer legitimately ends it
				w.Probe("C17:responder-checked")
				cur := w.FreshRec(node, si.ID)
				if cur == nil {
					cur = r
				}
				if !cur.Terminal() || si.TerminalAt > deadline {
					w.Violate("C17", "responder-fee-invoice-expired-not-failed:"+shortState(cur.Current), "node %d: swap-out %.8s: fee invoice expired unpaid at %v, but at %v the swap is in %s (terminal at %v)", node, si.ID, inv.ExpiresAt, now, cur.Current, si.TerminalAt)
				}
			}
		}
	}
}

func (m *monC17) neverReachedPeer(w *World, node int, si *SwapInfo) bool {
	for _, o := range w.Obs {
		if o.Kind == "send" && o.Node == node && o.Msg.SwapID == si.ID {
			return false
		}
	}
	return true
}

// extendForDowntime: time during which the node was down does not count
// against it beyond requiring action within the slack after it is back.
func (m *monC17) extendForDowntime(w *World, node int, from, deadline time.Duration) time.Duration {
	var downAt time.Duration = -1
	for _, o := range w.Obs {
		if o.Node != node {
			continue
		}
		switch o.Kind {
		case "crash":
			if downAt < 0 {
				downAt = o.T
			}
		case "boot.done":
			if downAt >= 0 {
				if downAt <= deadline && o.T+c17Slack > deadline {
					deadline = o.T + c17Slack
				}
				downAt = -1
			}
		}
	}
	if downAt >= 0 && downAt <= deadline {
		return 1 << 62 // still down: cannot be judged
	}
	return deadline
}

// ---------------------------------------------------------------------------
// C14 — persisted records reload to identical swap data.

type monC14 struct{ base }

func (m *monC14) Name() string { return "C14" }

func (m *monC14) OnObs(w *World, o *Obs) {
	if o.Kind == "store.write" && o.Store.Err != "" && o.Store.Phase == "after" {
		// not an injected fault: the real store refused the write, e.g. because
		// the record already on disk can no longer be decoded
		w.Violate("C14", "store-rejects-record:"+shortState(o.Store.State)+":"+firstWords(o.Store.Err, 5), "node %d: the store failed to write/reload the record of swap %.8s in state %s: %s", o.Node, o.Store.SwapID, o.Store.State, o.Store.Err)
		return
	}
	if o.Kind != "store.write" || o.Store.Raw == nil {
		return
	}
	mem := w.LastSM()
	if mem == nil {
		return
	}
	w.Probe("C14:record-checked")
	// reload through the real store codec
	n := w.Nodes[o.Node]
	loaded, err := n.RealStore.GetData(o.Store.SwapID)
	if err != nil {
		w.Violate("C14", "reload-error:"+shortState(o.Store.State), "node %d: record of swap %.8s (state %s) does not reload: %v", o.Node, o.Store.SwapID, o.Store.State, err)
		return
	}
	if d := diffSM(mem, loaded); d != "" {
		w.Violate("C14", "reload-differs:"+d, "node %d: swap %.8s in state %s reloads differently: %s", o.Node, o.Store.SwapID, o.Store.State, d)
	}
}

// diffSM compares the exported, persisted content of two machines.
func diffSM(a, b *swap.SwapStateMachine) string {
	if a.SwapId.String() != b.SwapId.String() {
		return "SwapId"
	}
	if a.Type != b.Type {
		return "Type"
	}
	if a.Role != b.Role {
		return "Role"
	}
	if a.Current != b.Current {
		return "Current"
	}
	if a.Previous != b.Previous {
		return "Previous"
	}
	if (a.Data == nil) != (b.Data == nil) {
		return "Data"
	}
	if a.Data == nil {
		return ""
	}
	va, vb := reflect.ValueOf(*a.Data), reflect.ValueOf(*b.Data)
	t := va.Type()
	for i := 0; i < t.NumField(); i++ {
		f := t.Field(i)
		if !f.IsExported() || f.Name == "LastErr" || f.Name == "LastMessage" {
			continue
		}
		if f.Name == "LastErrString" {
			// the persisted text of the (unserialisable) LastErr: compare the
			// effective error text of both sides, not the raw field
			ea, eb := a.Data.LastErrString, b.Data.LastErrString
			if a.Data.LastErr != nil {
				ea = a.Data.LastErr.Error()
			}
			if b.Data.LastErr != nil {
				eb = b.Data.LastErr.Error()
			}
			if ea != eb {
				return "Data.LastErr(text)"
			}
			continue
		}
		x, y := va.Field(i).Interface(), vb.Field(i).Interface()
		if !reflect.DeepEqual(x, y) {
			// nil vs empty slice are the same content
			if f.Type.Kind() == reflect.Slice && va.Field(i).Len() == 0 && vb.Field(i).Len() == 0 {
				continue
			}
			return "Data." + f.Name
		}
	}
	// the cancel reason a restarted node would show
	ca, cb := a.Data.GetCancelMessage(), b.Data.GetCancelMessage()
	if ca != cb {
		return "CancelReason"
	}
	return ""
}

// ---------------------------------------------------------------------------
// C21 — wire messages follow numbering/encoding; junk is ignored; no panic.

type monC21 struct{ base }

func (m *monC21) Name() string { return "C21" }

func (m *monC21) OnObs(w *World, o *Obs) {
	switch o.Kind {
	case "send":
		if !isReal(w, o.Node) {
			return
		}
		t := o.Msg.Type
		w.Probe("C21:send-checked")
		if t%2 == 0 || t < 42069 || t > 42085 {
			w.Violate("C21", fmt.Sprintf("bad-type-number:%d", t), "node %d sent message type %d (not an odd peerswap type)", o.Node, t)
			return
		}
		var generic map[string]json.RawMessage
		if err := json.Unmarshal(o.Msg.Payload, &generic); err != nil {
			w.Violate("C21", "payload-not-json:"+MsgName(t), "node %d sent %s whose payload is not a JSON object: %v", o.Node, MsgName(t), err)
			return
		}
		lower := map[string]bool{}
		for k := range generic {
			lower[strings.ToLower(k)] = true
		}
		need := map[int][]string{
			MsgSwapInRequest:    {"protocol_version", "swap_id", "network", "asset", "scid", "amount", "pubkey"},
			MsgSwapOutRequest:   {"protocol_version", "swap_id", "network", "asset", "scid", "amount", "pubkey"},
			MsgSwapInAgreement:  {"protocol_version", "swap_id", "pubkey", "premium"},
			MsgSwapOutAgreement: {"protocol_version", "swap_id", "pubkey", "payreq", "premium"},
			MsgOpeningTx:        {"swap_id", "payreq", "tx_id", "script_out", "blinding_key"},
			MsgCancel:           {"swap_id", "message"},
			MsgCoopClose:        {"swap_id", "message", "privkey"},
		}
		for _, k := range need[t] {
			if !lower[k] {
				w.Violate("C21", "missing-field:"+MsgName(t)+":"+k, "node %d sent %s without field %q: %s", o.Node, MsgName(t), k, o.Msg.Payload)
			}
		}
		var idm struct {
			SwapID string `json:"swap_id"`
		}
		json.Unmarshal(o.Msg.Payload, &idm)
		if t <= MsgCoopClose {
			if b, err := hex.DecodeString(idm.SwapID); err != nil || len(b) != 32 {
				w.Violate("C21", "bad-swap-id:"+MsgName(t), "node %d sent %s with swap_id %q", o.Node, MsgName(t), idm.SwapID)
			}
		}
		// round trip: the payload must decode to what the node persisted
		if r := w.FreshRec(o.Node, idm.SwapID); r != nil {
			m.roundTrip(w, o, r)
		}
	case "panic":
		top := o.Str
		if i := strings.Index(top, "\n"); i >= 0 {
			top = top[i+1:]
		}
		fn := top
		if i := strings.Index(fn, " |"); i >= 0 {
			fn = fn[:i]
		}
		if i := strings.Index(fn, "("); i >= 0 {
			fn = fn[:i]
		}
		w.Violate("C21", "panic-on-received-message:"+fn, "node %d panicked (a crash caused by a remote peer's message): %s", o.Node, o.Str)
	}
}

func (m *monC21) roundTrip(w *World, o *Obs, r *Rec) {
	t := o.Msg.Type
	cmp := func(what string, stored interface{}) {
		if stored == nil || reflect.ValueOf(stored).IsNil() {
			return
		}
		want, _ := json.Marshal(stored)
		var a, b interface{}
		json.Unmarshal(want, &a)
		// decode the wire payload into the same independent struct type
		nv := reflect.New(reflect.TypeOf(stored).Elem()).Interface()
		if err := json.Unmarshal(o.Msg.Payload, nv); err != nil {
			w.Violate("C21", "payload-does-not-decode:"+what, "node %d: %s payload does not decode: %v", o.Node, what, err)
			return
		}
		got, _ := json.Marshal(nv)
		json.Unmarshal(got, &b)
		if !reflect.DeepEqual(a, b) {
			w.Violate("C21", "payload-differs-from-record:"+what, "node %d: sent %s differs from the persisted one:\n wire:   %s\n stored: %s", o.Node, what, got, want)
		}
	}
	switch t {
	case MsgSwapInRequest:
		cmp("swap_in_request", r.Data.SwapInRequest)
	case MsgSwapOutRequest:
		cmp("swap_out_request", r.Data.SwapOutRequest)
	case MsgSwapInAgreement:
		cmp("swap_in_agreement", r.Data.SwapInAgreement)
	case MsgSwapOutAgreement:
		cmp("swap_out_agreement", r.Data.SwapOutAgreement)
	case MsgOpeningTx:
		cmp("opening_tx_broadcasted", r.Data.OpeningTxBroadcasted)
	}
}

// ---------------------------------------------------------------------------
// C22 — retransmissions stop when the swap moves on.

type monC22 struct {
	base
	sends map[string][]time.Duration // node/swap -> send times of opening_tx_broadcasted
}

func (m *monC22) Name() string { return "C22" }

func (m *monC22) OnObs(w *World, o *Obs) {
	if o.Kind != "send" || o.Msg.Type != MsgOpeningTx || !isReal(w, o.Node) {
		return
	}
	key := fmt.Sprintf("%d/%s/%d", o.Node, o.Msg.SwapID, o.Inc)
	m.sends[key] = append(m.sends[key], o.T)
	l := m.sends[key]
	w.Probe("C22:opening-send")
	// rate: at most 2 + floor(elapsed/interval) sends (a second retransmitter would double it)
	elapsed := l[len(l)-1] - l[0]
	if max := 2 + int(elapsed/(10*time.Second)); len(l) > max {
		w.Violate("C22", "too-many-retransmissions", "node %d sent opening_tx_broadcasted for swap %.8s %d times within %v (max %d for one 10s retransmitter)", o.Node, o.Msg.SwapID, len(l), elapsed, max)
	}
	// after the swap left the waiting state at most one already-due copy may go out
	si := m.tr.Get(o.Node, o.Msg.SwapID)
	if si == nil || si.Rec == nil {
		return
	}
	waiting := map[string]bool{
		"State_SwapInSender_SendTxBroadcastedMessage": true, "State_SwapInSender_AwaitClaimPayment": true,
		"State_SwapOutReceiver_SendTxBroadcastedMessage": true, "State_SwapOutReceiver_AwaitClaimInvoicePayment": true,
		"State_SwapInSender_BroadcastOpeningTx": true, "State_SwapOutReceiver_BroadcastOpeningTx": true,
	}
	if waiting[si.Rec.Current] {
		return
	}
	// when did it leave? count sends after that instant
	var leftAt time.Duration = -1
	for _, x := range w.Obs {
		if x.Kind == "store.write" && x.Node == o.Node && x.Store.SwapID == o.Msg.SwapID && x.Store.Raw != nil && !waiting[x.Store.State] && x.Store.State != "" {
			if r := DecodeRec(x.Store.Raw); r != nil && r.Data.OpeningTxBroadcasted != nil {
				leftAt = x.T
				break
			}
		}
	}
	if leftAt < 0 {
		return
	}
	after := 0
	for _, t := range l {
		if t > leftAt {
			after++
		}
	}
	w.Probe("C22:send-after-leaving")
	if after > 1 {
		w.Violate("C22", "retransmission-after-state-left:"+shortState(si.Rec.Current), "node %d: %d copies of opening_tx_broadcasted for swap %.8s were sent after the swap moved on to %s at %v", o.Node, after, o.Msg.SwapID, si.Rec.Current, leftAt)
	}
}

// ---------------------------------------------------------------------------
// C23 — secrets leave the node only as the taker's key in its own coop_close.

type monC23 struct{ base }

func (m *monC23) Name() string { return "C23" }

func containsSecret(payload []byte, secretHex string) bool {
	if len(secretHex) < 32 {
		return false
	}
	s := string(payload)
	ls := strings.ToLower(s)
	if strings.Contains(ls, strings.ToLower(secretHex)) {
		return true
	}
	raw, err := hex.DecodeString(secretHex)
	if err != nil {
		return false
	}
	if strings.Contains(s, base64.StdEncoding.EncodeToString(raw)) || strings.Contains(s, base64.RawStdEncoding.EncodeToString(raw)) || strings.Contains(s, base64.URLEncoding.EncodeToString(raw)) {
		return true
	}
	return bytes.Contains(payload, raw)
}

func (m *monC23) OnObs(w *World, o *Obs) {
	if o.Kind != "send" || !isReal(w, o.Node) {
		return
	}
	w.Probe("C23:send-scanned")
	n := w.Nodes[o.Node]
	// preimages of invoices this node created
	for _, inv := range w.LN.Invoices {
		if inv.Payee == o.Node && containsSecret(o.Msg.Payload, inv.Preimage) {
			w.Violate("C23", "preimage-in-"+MsgName(o.Msg.Type), "node %d sent %s containing the preimage of its own invoice %.8s", o.Node, MsgName(o.Msg.Type), inv.Hash)
		}
	}
	// preimages it learned by paying
	for _, p := range w.LN.Payments {
		if p.Payer == o.Node && p.State == "settled" && containsSecret(o.Msg.Payload, p.Preimage) {
			w.Violate("C23", "learned-preimage-in-"+MsgName(o.Msg.Type), "node %d sent %s containing a preimage it obtained by paying", o.Node, MsgName(o.Msg.Type))
		}
	}
	// swap keys
	for id, raw := range n.AllRaw() {
		r := DecodeRec(raw)
		if r == nil || len(r.Data.PrivkeyBytes) != 32 {
			continue
		}
		if !containsSecret(o.Msg.Payload, r.PrivkeyHex()) {
			continue
		}
		if o.Msg.Type == MsgCoopClose && o.Msg.SwapID == id && r.IsTaker() {
			w.Probe("C23:taker-key-in-own-coop_close")
			continue
		}
		role := "maker"
		if r.IsTaker() {
			role = "taker"
		}
		w.Violate("C23", role+"-swap-key-in-"+MsgName(o.Msg.Type), "node %d sent %s (swap %.8s) containing the %s key of swap %.8s", o.Node, MsgName(o.Msg.Type), o.Msg.SwapID, role, id)
	}
	// wallet keys
	for i := 0; i <= n.BtcWallet.addrSeq; i++ {
		if containsSecret(o.Msg.Payload, hex.EncodeToString(n.BtcWallet.key(i).Serialize())) {
			w.Violate("C23", "wallet-key-in-"+MsgName(o.Msg.Type), "node %d sent a bitcoin wallet key", o.Node)
		}
	}
	for i := 1; i <= n.LiquidWallet.addrSeq; i++ {
		if containsSecret(o.Msg.Payload, hex.EncodeToString(n.LiquidWallet.key("spend", i).Serialize())) || containsSecret(o.Msg.Payload, hex.EncodeToString(n.LiquidWallet.key("blind", i).Serialize())) {
			w.Violate("C23", "wallet-key-in-"+MsgName(o.Msg.Type), "node %d sent a liquid wallet key", o.Node)
		}
	}
}

// ---------------------------------------------------------------------------
// C18 — event handling never deadlocks.

type monC18 struct{ base }

func (m *monC18) Name() string { return "C18" }

func (m *monC18) Final(w *World) {
	if w.Sim.Deadlock != nil {
		sig := deadlockSig(w.Sim.Deadlock)
		w.Violate("C18", "lock-cycle:"+sig, "deadlock: %s", strings.Join(w.Sim.Deadlock, " ; "))
		return
	}
	// a handler still waiting for a lock long after everything went quiet is blocked forever
	stuck := func() map[string]string {
		out := map[string]string{}
		for _, b := range w.Sim.BlockedTasks() {
			if strings.Contains(b, "site=lockwait") || strings.Contains(b, "site=rlockwait") {
				id := b
				if i := strings.Index(b, " "); i > 0 {
					id = b[:i]
				}
				out[id] = b
			}
		}
		return out
	}
	first := stuck()
	if len(first) == 0 {
		return
	}
	w.Sim.Idle(10 * time.Minute)
	second := stuck()
	for id, desc := range second {
		if _, ok := first[id]; ok {
			name := id
			if a, b := strings.Index(desc, "["), strings.Index(desc, "]"); a >= 0 && b > a {
				name = desc[a+1 : b]
			}
			w.Violate("C18", "blocked-forever:"+name, "a handler is blocked on a lock for good (still blocked after 10 more idle minutes): %s", desc)
		}
	}
}

func deadlockSig(path []string) string {
	// signature: sorted task names involved
	var names []string
	for _, p := range path {
		a := strings.Index(p, "[")
		b := strings.Index(p, "]")
		if a >= 0 && b > a {
			names = append(names, p[a+1:b])
		}
	}
	sort.Strings(names)
	return strings.Join(names, "+")
}
