package world

import (
	"bytes"
	"encoding/hex"
	"errors"
	"math"
	"strconv"

	"github.com/elementsproject/glightning/gelements"
	"github.com/elementsproject/glightning/jrpc2"
	"github.com/elementsproject/peerswap/onchain"
	"github.com/elementsproject/peerswap/swap"
	"github.com/elementsproject/peerswap/verifsim/rt"
	"github.com/elementsproject/peerswap/wallet"
	"github.com/vulpemventures/go-elements/elementsutil"
	"github.com/vulpemventures/go-elements/network"
	"github.com/vulpemventures/go-elements/transaction"
)

// The real wallet.ElementsRpcWallet over a simulated elementsd. The seam is the
// repository's own wallet.RpcClient interface. The simulated daemon keeps no
// state of its own beyond what fundrawtransaction has to remember: addresses,
// balance and the layout of funded transactions come from the node's
// SimLiquidWallet book, transactions go to SimChain.

type fakeElementsd struct {
	n        *Node
	l        *SimLiquidWallet
	selected string          // the wallet this client's wallet RPCs are routed to ("" = elementsd's default wallet)
	loaded   map[string]bool // wallets loaded in the daemon; the daemon outlives peerswap restarts
	ann     map[string]*swap.OpeningParams // task -> opening being created
	pending map[string]*elemFunding        // swap script (hex) -> funding in progress
}

type elemFunding struct {
	value    uint64
	asset    []byte
	fee      uint64
	idx      int
	errAfter bool // the acknowledgement of the broadcast will be lost
	reject26 bool // the node will refuse the broadcast (min relay fee not met)
}

// swapIndexFor: where the caller's output ends up among the `others` outputs the daemon adds.
func swapIndexFor(lay LayoutCfg, others int) int {
	idx := lay.SwapIndex
	if lay.RandomPos {
		idx = int(rt.RandUint64() % uint64(others+1))
	}
	if idx < 0 {
		idx = 0
	}
	if idx > others {
		idx = others
	}
	return idx
}

func newFakeElementsd(n *Node) *fakeElementsd {
	if n.elemLoaded == nil {
		n.elemLoaded = map[string]bool{}
	}
	return &fakeElementsd{n: n, l: n.LiquidWallet, loaded: n.elemLoaded, ann: map[string]*swap.OpeningParams{}, pending: map[string]*elemFunding{}}
}

func (f *fakeElementsd) ListWallets() ([]string, error) {
	if flt := f.n.lightOp("lwallet.setup"); flt != nil && flt.Kind == "err" {
		return nil, errors.New("elementsd: rpc unavailable")
	}
	var out []string
	for _, k := range sortedBoolKeys(f.loaded) {
		out = append(out, k)
	}
	return out, nil
}

func sortedBoolKeys(m map[string]bool) []string {
	var ks []string
	for k := range m {
		ks = append(ks, k)
	}
	for i := range ks {
		for j := i + 1; j < len(ks); j++ {
			if ks[j] < ks[i] {
				ks[i], ks[j] = ks[j], ks[i]
			}
		}
	}
	return ks
}

func (f *fakeElementsd) LoadWallet(name string, onstartup bool) (string, error) {
	// (a wallet that exists is loaded: it was created with load_on_startup and the daemon keeps running)
	return "", &jrpc2.RpcError{Code: -18, Message: "Wallet file verification failed. Failed to load database path. Path does not exist."}
}

func (f *fakeElementsd) CreateWallet(name string) (string, error) {
	f.loaded[name] = true
	return name, nil
}

func (f *fakeElementsd) SetRpcWallet(name string) { f.selected = name }

// ours: wallet RPCs reach the swap wallet only if the client selected it; otherwise they go to
// the daemon's default wallet, which is somebody else's book.
func (f *fakeElementsd) ours() bool { return f.loaded[f.selected] && f.selected != "" }

func (f *fakeElementsd) GetNewAddress(addrType int) (string, error) {
	if !f.ours() {
		f.n.w.Probe("elementsd:wallet-rpc-to-default-wallet")
		return f.l.foreignAddr()
	}
	return f.l.GetAddress()
}
func (f *fakeElementsd) GetBalance() (uint64, error) {
	if !f.ours() {
		f.n.w.Probe("elementsd:wallet-rpc-to-default-wallet")
		return 0, nil
	}
	return f.l.GetBalance()
}
func (f *fakeElementsd) SendToAddress(string, string) (string, error) {
	return "", errors.New("not used by swaps")
}
func (f *fakeElementsd) SetLabel(address, label string) error { return f.l.SetLabel("", address, label) }
func (f *fakeElementsd) Ping() (bool, error)                  { return true, nil }
func (f *fakeElementsd) GetNetworkInfo() (*gelements.NetworkInfo, error) {
	return &gelements.NetworkInfo{Version: 230203, Subversion: "/Elements Core:23.2.3/"}, nil
}
func (f *fakeElementsd) DecodeRawTx(txstring string) (*gelements.Tx, error) {
	// (only used to find out whether discounted CT is enabled: it is)
	return &gelements.Tx{DiscountVirtualSize: 1}, nil
}

// EstimateFee: BTC per kvB, as elementsd reports it.
func (f *fakeElementsd) EstimateFee(blocks uint32, mode string) (*gelements.FeeResponse, error) {
	n := f.n
	if flt := n.lightOp("lwallet.fee"); flt != nil {
		switch flt.Kind {
		case "err":
			return nil, errors.New("elementsd: rpc unavailable")
		case "zero":
			// no estimate available (a fresh or idle chain)
			return &gelements.FeeResponse{Errors: []string{"Insufficient data or no feerate found"}, Blocks: blocks}, nil
		}
	}
	rate := n.w.Plan.Scn.LiquidFeeRate[n.ID] // sat per kvB
	return &gelements.FeeResponse{FeeRate: float64(rate) / 1e8, Blocks: blocks}, nil
}

// FundRawWithOptions adds an input, the plan's change / extra outputs and the fee
// output around the outputs the caller built. The caller's outputs stay as they are.
func (f *fakeElementsd) FundRawWithOptions(txstring string, options *gelements.FundRawOptions, iswitness *bool) (*gelements.FundRawResult, error) {
	n := f.n
	w := n.w
	flt := n.op("lwallet.open")
	if flt != nil && flt.Kind == "err" {
		return nil, errors.New("elementsd: fundrawtransaction failed")
	}
	if !f.ours() {
		w.Probe("elementsd:wallet-rpc-to-default-wallet")
		return nil, &jrpc2.RpcError{Code: -4, Message: "Insufficient funds"}
	}
	tx, err := transaction.NewTxFromHex(txstring)
	if err != nil {
		return nil, &jrpc2.RpcError{Code: -22, Message: "TX decode failed: " + err.Error()}
	}
	if len(tx.Outputs) != 1 || len(tx.Inputs) != 0 {
		return nil, errors.New("the simulated elementsd funds transactions with exactly one output and no input")
	}
	out := tx.Outputs[0]
	if len(out.Value) != 9 || out.Value[0] != 1 || len(out.Asset) != 33 || out.Asset[0] != 1 {
		return nil, &jrpc2.RpcError{Code: -22, Message: "output must be unblinded when funding"}
	}
	value, err := elementsutil.ValueFromBytes(out.Value)
	if err != nil {
		return nil, err
	}
	rate := uint64(0)
	if options != nil && options.FeeRate != "" {
		fr, err := strconv.ParseFloat(options.FeeRate, 64)
		if err != nil || fr < 0 {
			return nil, &jrpc2.RpcError{Code: -3, Message: "Invalid amount for feeRate"}
		}
		rate = uint64(math.Round(fr * 1e8)) // sat per kvB
	} else {
		rate = uint64(w.Plan.Scn.LiquidFeeRate[n.ID])
	}
	if rate < 100 {
		return nil, &jrpc2.RpcError{Code: -8, Message: "Fee rate is lower than the minimum fee rate setting"}
	}
	fee := rate * uint64(onchain.EstimatedOpeningConfidentialTxSizeBytes/4) / 1000
	if f.l.Balance < value+fee {
		return nil, &jrpc2.RpcError{Code: -4, Message: "Insufficient funds"}
	}
	lay := w.Plan.Scn.Layout[n.ID]
	funded := transaction.NewTx(2)
	ph := randHash()
	funded.AddInput(transaction.NewTxInput(ph[:], 0))
	var outs []*transaction.TxOutput
	changePos := -1
	if lay.Change {
		_, cs, _ := f.l.newAddr()
		v, _ := elementsutil.ValueToBytes(f.l.Balance - value - fee)
		outs = append(outs, transaction.NewTxOutput(out.Asset, v, cs))
	}
	for i := 0; i < lay.Extra; i++ {
		_, es, _ := f.l.newAddr()
		v, _ := elementsutil.ValueToBytes(uint64(1000 + i))
		outs = append(outs, transaction.NewTxOutput(out.Asset, v, es))
	}
	idx := swapIndexFor(lay, len(outs))
	outs = append(outs[:idx], append([]*transaction.TxOutput{out}, outs[idx:]...)...)
	if lay.Change {
		changePos = 0
		if idx == 0 {
			changePos = 1
		}
	}
	fv, _ := elementsutil.ValueToBytes(fee)
	outs = append(outs, transaction.NewTxOutput(out.Asset, fv, []byte{}))
	for _, o := range outs {
		funded.AddOutput(o)
	}
	if idx != 0 {
		w.Probe("layout:swap-output-not-first")
	}
	h, err := funded.ToHex()
	if err != nil {
		return nil, err
	}
	n.mu.Lock()
	f.pending[hex.EncodeToString(out.Script)] = &elemFunding{value: value, asset: append([]byte(nil), out.Asset...), fee: fee, idx: idx,
		errAfter: flt != nil && flt.Kind == "errafter", reject26: flt != nil && flt.Kind == "reject26"}
	n.mu.Unlock()
	return &gelements.FundRawResult{TxString: h, Fee: float64(fee) / 1e8, ChangePosition: changePos}, nil
}

// BlindRawTransaction blinds every output that names a blinding key (nonce) and is still explicit.
func (f *fakeElementsd) BlindRawTransaction(txHex string) (string, error) {
	tx, err := transaction.NewTxFromHex(txHex)
	if err != nil {
		return "", &jrpc2.RpcError{Code: -22, Message: "TX decode failed: " + err.Error()}
	}
	for i, o := range tx.Outputs {
		if len(o.Nonce) != 33 || len(o.Value) != 9 || len(o.Script) == 0 {
			continue
		}
		v, err := elementsutil.ValueFromBytes(o.Value)
		if err != nil {
			return "", err
		}
		b, err := BlindedOutput(v, o.Asset[1:], o.Script, o.Nonce)
		if err != nil {
			return "", &jrpc2.RpcError{Code: -4, Message: "Unable to blind transaction: " + err.Error()}
		}
		tx.Outputs[i] = b
	}
	return tx.ToHex()
}

func (f *fakeElementsd) SignRawTransactionWithWallet(txHex string) (gelements.SignRawTransactionWithWalletRes, error) {
	if flt := f.n.op("lwallet.sign"); flt != nil && flt.Kind == "err" {
		return gelements.SignRawTransactionWithWalletRes{}, errors.New("elementsd: rpc unavailable")
	}
	return gelements.SignRawTransactionWithWalletRes{Hex: txHex, Complete: true}, nil
}

// SendRawTx: an opening funded above, or a spend built by LiquidOnChain.
func (f *fakeElementsd) SendRawTx(txHex string) (string, error) {
	n := f.n
	w := n.w
	tx, err := transaction.NewTxFromHex(txHex)
	if err != nil {
		return "", &jrpc2.RpcError{Code: -22, Message: "TX decode failed: " + err.Error()}
	}
	var fd *elemFunding
	var script []byte
	at := -1
	n.mu.Lock()
	for i, o := range tx.Outputs {
		if p := f.pending[hex.EncodeToString(o.Script)]; p != nil && len(o.Script) > 0 {
			fd, script, at = p, o.Script, i
		}
	}
	p := f.ann[taskKey()]
	n.mu.Unlock()
	if fd == nil {
		return f.l.SendRawTx(txHex)
	}
	// (the fault drawn when this opening was funded decides the fate of its broadcast: the
	// existing "lwallet.open" site then covers the whole fund / blind / sign / send sequence)
	var flt *Fault
	if fd.reject26 {
		fd.reject26 = false
		w.Probe("lwallet:broadcast-refused-min-relay-fee")
		return "", &jrpc2.RpcError{Code: -26, Message: "min relay fee not met"}
	}
	if fd.errAfter {
		flt = &Fault{Kind: "errafter"}
	}
	txid, err := w.LBTC.Broadcast(n.ID, txHex, "opening")
	if err != nil {
		return "", &jrpc2.RpcError{Code: -25, Message: err.Error()}
	}
	n.mu.Lock()
	delete(f.pending, hex.EncodeToString(script))
	n.mu.Unlock()
	so := &SwapOutput{TxID: txid, Vout: uint32(at), Owner: n.ID, Amount: fd.value, PkScript: script, CSV: 60, ValueCommitment: tx.Outputs[at].Value,
		AssetOK: bytes.Equal(fd.asset[1:], w.liquidAssetBytes())}
	if p != nil {
		redeem, _ := onchain.ParamsToTxScript(p, p.CSV)
		so.Script, so.CSV = redeem, p.CSV
		so.TakerPub, so.MakerPub, so.PayHash, so.BlindPriv = p.TakerPubkey, p.MakerPubkey, p.ClaimPaymentHash, p.BlindingKey.Serialize()
	}
	w.LBTC.RegisterSwap(so)
	f.l.Balance -= fd.value + fd.fee
	f.l.Openings = append(f.l.Openings, txid)
	lay := w.Plan.Scn.Layout[n.ID]
	if lay.Change && lay.SpendChange && at != 0 {
		w.Sim.After(ms(45000), "wallet", "spend-change", func() { w.LBTC.SpendPlain(n.ID, txid, 0) })
	}
	w.Observe(&Obs{Node: n.ID, Inc: n.inc, Kind: "wallet.opening", Str: txid, Num: int64(at), Tx: &TxObs{Chain: "lbtc", TxID: txid, Hex: txHex, Kind: "opening", Err: ackLost(flt)}})
	if flt != nil && flt.Kind == "errafter" {
		return "", errors.New("elementsd: request timed out")
	}
	return txid, nil
}

// elemShim sits between LiquidOnChain and the real wallet; it forwards every call and only
// notes which opening a CreateAndBroadcastTransaction call belongs to (elementsd's RPCs do
// not carry that; the simulated chain wants it for its ground truth).
type elemShim struct {
	n *Node
	f *fakeElementsd
	w *wallet.ElementsRpcWallet
}

func (s *elemShim) GetAddress() (string, error)                  { return s.w.GetAddress() }
func (s *elemShim) SendToAddress(a string, v uint64) (string, error) { return s.w.SendToAddress(a, v) }
func (s *elemShim) GetBalance() (uint64, error)                  { return s.w.GetBalance() }
func (s *elemShim) SendRawTx(rawTx string) (string, error)       { return s.w.SendRawTx(rawTx) }
func (s *elemShim) GetFee(txSize int64) (uint64, error)          { return s.w.GetFee(txSize) }
func (s *elemShim) SetLabel(txID, address, label string) error   { return s.w.SetLabel(txID, address, label) }
func (s *elemShim) Ping() (bool, error)                          { return s.w.Ping() }
func (s *elemShim) CreateAndBroadcastTransaction(p *swap.OpeningParams, asset []byte) (string, string, uint64, error) {
	k := taskKey()
	s.n.mu.Lock()
	s.f.ann[k] = p
	s.n.mu.Unlock()
	defer func() {
		s.n.mu.Lock()
		delete(s.f.ann, k)
		s.n.mu.Unlock()
	}()
	return s.w.CreateAndBroadcastTransaction(p, asset)
}

// bootElementsWallet builds the node's Liquid wallet the way cmd/*/main.go does for the
// elementsd back-end: wallet.NewRpcWallet (setup included) over the daemon's RPC client.
func (n *Node) bootElementsWallet() (wallet.Wallet, error) {
	f := newFakeElementsd(n)
	w, err := wallet.NewSimRpcWallet(f, "swap")
	if err != nil {
		return nil, err
	}
	n.w.Probe("tierE:real-elements-wallet")
	return &elemShim{n: n, f: f, w: w}, nil
}

// liquidAssetBytes: the 32-byte policy asset of the simulated Liquid network, in the byte
// order transactions carry it.
func (w *World) liquidAssetBytes() []byte {
	h, _ := hex.DecodeString(network.Regtest.AssetID)
	return elementsutil.ReverseBytes(h)
}
