package world

import (
	"bytes"
	"context"
	"crypto/sha256"
	"encoding/hex"
	"errors"
	"fmt"
	"io"
	"strconv"
	"strings"
	"time"

	"github.com/btcsuite/btcd/btcutil"
	"github.com/btcsuite/btcd/btcutil/psbt"
	"github.com/btcsuite/btcd/chaincfg"
	"github.com/btcsuite/btcd/chaincfg/chainhash"
	"github.com/btcsuite/btcd/txscript"
	"github.com/btcsuite/btcd/wire"
	"github.com/elementsproject/peerswap/swap"
	"github.com/elementsproject/peerswap/verifsim/lndhook"
	"github.com/elementsproject/peerswap/verifsim/rt"
	"github.com/lightningnetwork/lnd/lnrpc"
	"github.com/lightningnetwork/lnd/lnrpc/chainrpc"
	"github.com/lightningnetwork/lnd/lnrpc/invoicesrpc"
	"github.com/lightningnetwork/lnd/lnrpc/routerrpc"
	"github.com/lightningnetwork/lnd/lnrpc/walletrpc"
	"github.com/lightningnetwork/lnd/lnwire"
	"google.golang.org/grpc"
	"google.golang.org/grpc/codes"
	"google.golang.org/grpc/status"
)

// Tier 2: a simulated LND behind the generated gRPC client *interfaces*. The
// real adapter (package lnd: Client, PaymentWatcher, MessageListener,
// TxWatcher) runs unmodified on top of it; its calls to the generated client
// constructors are answered here (verifsim/lndhook). State lives in the
// simulated world (SimLN, SimChain, the node's SimBtcWallet address book), so
// every oracle sees the same ground truth as at tier 1 - plus the requests the
// adapter really emits (C24, CLTV limits of C04/C05, vout search of C08/C03).

type fakeLnd struct {
	n  *Node
	cc *grpc.ClientConn
	// what the caller above the adapter is doing, per task: the adapter's RPCs do
	// not carry the swap id, the invoice type or the swap parameters
	ann    map[string]*lndAnn
	funded map[string]*lndFunded // unsigned txid -> funding
}

type lndAnn struct {
	fn      string // RebalancePayment / PayInvoiceViaChannel
	swapID  string
	invType swap.InvoiceType
	opening *swap.OpeningParams
}

type lndFunded struct {
	swapIdx int
	params  *swap.OpeningParams
	amount  uint64
	fee     uint64
}

var lndBackends = map[grpc.ClientConnInterface]*fakeLnd{}

func init() {
	lndhook.Resolve = func(cc grpc.ClientConnInterface) lndhook.Backend {
		faultMu.Lock()
		defer faultMu.Unlock()
		if b := lndBackends[cc]; b != nil {
			return b
		}
		return nil
	}
}

func newFakeLnd(n *Node) *fakeLnd {
	f := &fakeLnd{n: n, cc: new(grpc.ClientConn), ann: map[string]*lndAnn{}, funded: map[string]*lndFunded{}}
	faultMu.Lock()
	lndBackends[f.cc] = f
	faultMu.Unlock()
	return f
}

func (f *fakeLnd) release() {
	faultMu.Lock()
	delete(lndBackends, f.cc)
	faultMu.Unlock()
}

func (f *fakeLnd) Lightning() lnrpc.LightningClient          { return &fakeLightning{f: f} }
func (f *fakeLnd) WalletKit() walletrpc.WalletKitClient       { return &fakeWalletKit{f: f} }
func (f *fakeLnd) Router() routerrpc.RouterClient             { return &fakeRouter{f: f} }
func (f *fakeLnd) Invoices() invoicesrpc.InvoicesClient       { return &fakeInvoices{f: f} }
func (f *fakeLnd) ChainNotifier() chainrpc.ChainNotifierClient { return &fakeChainNotifier{f: f} }

func taskKey() string {
	if t := rt.Self(); t != nil {
		return t.ID
	}
	return ""
}

func (f *fakeLnd) annotate(a *lndAnn) func() {
	k := taskKey()
	f.n.mu.Lock()
	prev := f.ann[k]
	f.ann[k] = a
	f.n.mu.Unlock()
	return func() {
		f.n.mu.Lock()
		if prev == nil {
			delete(f.ann, k)
		} else {
			f.ann[k] = prev
		}
		f.n.mu.Unlock()
	}
}

func (f *fakeLnd) current() *lndAnn {
	f.n.mu.Lock()
	defer f.n.mu.Unlock()
	if a := f.ann[taskKey()]; a != nil {
		return a
	}
	return &lndAnn{}
}

// scid <-> lnd channel id
func lndChanID(scid string) uint64 {
	p := strings.Split(NormScid(scid), "x")
	if len(p) != 3 {
		return 0
	}
	b, _ := strconv.Atoi(p[0])
	t, _ := strconv.Atoi(p[1])
	o, _ := strconv.Atoi(p[2])
	return lnwire.ShortChannelID{BlockHeight: uint32(b), TxIndex: uint32(t), TxPosition: uint16(o)}.ToUint64()
}

func scidOfLndChan(id uint64) string {
	s := lnwire.NewShortChanIDFromInt(id)
	return fmt.Sprintf("%dx%dx%d", s.BlockHeight, s.TxIndex, s.TxPosition)
}

// ---------------------------------------------------------------------------
// streams

type fakeStream struct {
	grpc.ClientStream
	ctx context.Context
}

// waitCtx blocks the calling task until ev fires or ctx is cancelled.
func waitCtx(ctx context.Context, ev *rt.Event, site string) error {
	if ctx.Err() != nil {
		return status.Error(codes.Canceled, "context canceled")
	}
	stop := context.AfterFunc(ctx, func() { ev.Fire() })
	defer stop()
	ev.Wait(site)
	if ctx.Err() != nil {
		return status.Error(codes.Canceled, "context canceled")
	}
	return nil
}

// queue is a small unbounded mailbox a stream reads from.
type lndQueue struct {
	n     *Node
	items []interface{}
	ev    *rt.Event
	err   error
}

func newLndQueue(n *Node) *lndQueue { return &lndQueue{n: n, ev: rt.NewEvent("lndq")} }

func (q *lndQueue) push(x interface{}) {
	q.n.mu.Lock()
	q.items = append(q.items, x)
	ev := q.ev
	q.n.mu.Unlock()
	ev.Fire()
}

func (q *lndQueue) pop(ctx context.Context, site string) (interface{}, error) {
	for {
		q.n.checkAlive()
		q.n.mu.Lock()
		if len(q.items) > 0 {
			x := q.items[0]
			q.items = q.items[1:]
			q.n.mu.Unlock()
			return x, nil
		}
		if q.err != nil {
			e := q.err
			q.n.mu.Unlock()
			return nil, e
		}
		if q.ev.Fired() {
			q.ev = rt.NewEvent("lndq")
		}
		ev := q.ev
		q.n.mu.Unlock()
		if err := waitCtx(ctx, ev, site); err != nil {
			return nil, err
		}
	}
}

// ---------------------------------------------------------------------------
// Lightning

type fakeLightning struct {
	lnrpc.LightningClient
	f *fakeLnd
}

func (l *fakeLightning) GetInfo(ctx context.Context, in *lnrpc.GetInfoRequest, opts ...grpc.CallOption) (*lnrpc.GetInfoResponse, error) {
	n := l.f.n
	f := n.lightOp("btc.rpc.height")
	if f != nil && f.Kind == "err" {
		return nil, status.Error(codes.Unavailable, "lnd: rpc unavailable")
	}
	h := n.w.BTC.Height()
	if f != nil && f.Kind == "stale" && h > n.w.BTC.Base {
		h--
	}
	n.served("btc", h)
	return &lnrpc.GetInfoResponse{IdentityPubkey: n.Pubkey, BlockHeight: h, SyncedToChain: true, SyncedToGraph: true,
		Chains: []*lnrpc.Chain{{Chain: "bitcoin", Network: "regtest"}}, Version: "0.18.4-beta"}, nil
}

func (l *fakeLightning) DecodePayReq(ctx context.Context, in *lnrpc.PayReqString, opts ...grpc.CallOption) (*lnrpc.PayReq, error) {
	l.f.n.lightOp("ln.decode")
	b, err := DecodePayreqBody(in.PayReq)
	if err != nil {
		return nil, err
	}
	pr := &lnrpc.PayReq{Destination: b.D, PaymentHash: b.H, NumSatoshis: int64(b.A / 1000), NumMsat: int64(b.A), CltvExpiry: b.C,
		Expiry: 3600, Timestamp: 0, Description: b.L}
	for _, h := range b.R {
		pr.RouteHints = append(pr.RouteHints, &lnrpc.RouteHint{HopHints: []*lnrpc.HopHint{{NodeId: h.Pubkey, ChanId: lndChanID(h.Scid), CltvExpiryDelta: h.Delta}}})
		l.f.n.w.Probe("ln:invoice-with-route-hints-decoded")
	}
	return pr, nil
}

func (l *fakeLightning) AddInvoice(ctx context.Context, in *lnrpc.Invoice, opts ...grpc.CallOption) (*lnrpc.AddInvoiceResponse, error) {
	n := l.f.n
	f := n.op("ln.invoice")
	if f != nil && f.Kind == "err" {
		return nil, status.Error(codes.Unavailable, "lnd: rpc unavailable")
	}
	a := l.f.current()
	inv, err := n.w.LN.NewInvoice(n.ID, uint64(in.ValueMsat), hex.EncodeToString(in.RPreimage), a.swapID, a.invType, in.Memo, uint64(in.Expiry), in.CltvExpiry)
	if err != nil {
		return nil, err
	}
	if f != nil && f.Kind == "errafter" {
		return nil, status.Error(codes.DeadlineExceeded, "lnd: rpc timeout")
	}
	h, _ := hex.DecodeString(inv.Hash)
	return &lnrpc.AddInvoiceResponse{RHash: h, PaymentRequest: inv.Payreq}, nil
}

func (l *fakeLightning) channels() []*lnrpc.Channel {
	n := l.f.n
	var out []*lnrpc.Channel
	for _, k := range rt.SortedKeys(n.w.LN.Channels) {
		ch := n.w.LN.Channels[k]
		peer := ch.peerOf(n.ID)
		if peer < 0 {
			continue
		}
		out = append(out, &lnrpc.Channel{Active: ch.Active && n.w.connectedTo(n.ID, peer), RemotePubkey: n.w.Nodes[peer].Pubkey, ChanId: lndChanID(ch.Scid),
			LocalBalance: int64(ch.spendable(n.ID) / 1000), RemoteBalance: int64(ch.spendable(peer) / 1000),
			LocalConstraints: &lnrpc.ChannelConstraints{}, RemoteConstraints: &lnrpc.ChannelConstraints{}})
	}
	return out
}

func (l *fakeLightning) ListChannels(ctx context.Context, in *lnrpc.ListChannelsRequest, opts ...grpc.CallOption) (*lnrpc.ListChannelsResponse, error) {
	n := l.f.n
	f := n.op("ln.spendable")
	if f != nil && f.Kind == "err" {
		return nil, status.Error(codes.Unavailable, "lnd: rpc unavailable")
	}
	return &lnrpc.ListChannelsResponse{Channels: l.channels()}, nil
}

func (l *fakeLightning) ListPeers(ctx context.Context, in *lnrpc.ListPeersRequest, opts ...grpc.CallOption) (*lnrpc.ListPeersResponse, error) {
	n := l.f.n
	f := n.lightOp("ln.listpeers")
	if f != nil && f.Kind == "err" {
		return nil, status.Error(codes.Unavailable, "lnd: rpc unavailable")
	}
	var ps []*lnrpc.Peer
	for _, o := range n.w.Nodes {
		if o.ID != n.ID && n.w.connectedTo(n.ID, o.ID) && !n.ext.disconnected[o.ID] {
			ps = append(ps, &lnrpc.Peer{PubKey: o.Pubkey})
		}
	}
	return &lnrpc.ListPeersResponse{Peers: ps}, nil
}

func (l *fakeLightning) GetChanInfo(ctx context.Context, in *lnrpc.ChanInfoRequest, opts ...grpc.CallOption) (*lnrpc.ChannelEdge, error) {
	// the channel graph does not always know a (private) channel; the adapter copes with that
	return nil, status.Error(codes.NotFound, "edge not found")
}

func (l *fakeLightning) SendCustomMessage(ctx context.Context, in *lnrpc.SendCustomMessageRequest, opts ...grpc.CallOption) (*lnrpc.SendCustomMessageResponse, error) {
	n := l.f.n
	f := n.op("net.send")
	if f != nil && f.Kind == "err" {
		return nil, status.Error(codes.Unknown, "peer is not connected")
	}
	err := n.w.Net.Send(n.ID, hex.EncodeToString(in.Peer), in.Data, int(in.Type))
	if err == nil && f != nil && f.Kind == "errafter" {
		return nil, status.Error(codes.DeadlineExceeded, "lnd: rpc timeout")
	}
	if err != nil {
		return nil, err
	}
	return &lnrpc.SendCustomMessageResponse{}, nil
}

type customMsgStream struct {
	fakeStream
	q *lndQueue
}

func (s *customMsgStream) Recv() (*lnrpc.CustomMessage, error) {
	x, err := s.q.pop(s.ctx, "inbox")
	if err != nil {
		return nil, err
	}
	return x.(*lnrpc.CustomMessage), nil
}

func (l *fakeLightning) SubscribeCustomMessages(ctx context.Context, in *lnrpc.SubscribeCustomMessagesRequest, opts ...grpc.CallOption) (lnrpc.Lightning_SubscribeCustomMessagesClient, error) {
	n := l.f.n
	n.op("ln.subscribe")
	q := newLndQueue(n)
	n.mu.Lock()
	if n.lndSwapSubscribing || n.lndInbox == nil && !n.ext.psReal {
		n.lndInbox = q // the swap service's MessageListener
	} else {
		n.lndSubs = append(n.lndSubs, q) // further subscribers (peer-sync's own adapter): lnd gives every subscriber every message
	}
	n.mu.Unlock()
	return &customMsgStream{fakeStream{ctx: ctx}, q}, nil
}

func (l *fakeLightning) WalletBalance(ctx context.Context, in *lnrpc.WalletBalanceRequest, opts ...grpc.CallOption) (*lnrpc.WalletBalanceResponse, error) {
	bal, err := l.f.n.BtcWallet.GetOnchainBalance()
	if err != nil {
		return nil, status.Error(codes.Unavailable, err.Error())
	}
	return &lnrpc.WalletBalanceResponse{TotalBalance: int64(bal), ConfirmedBalance: int64(bal)}, nil
}

func (l *fakeLightning) NewAddress(ctx context.Context, in *lnrpc.NewAddressRequest, opts ...grpc.CallOption) (*lnrpc.NewAddressResponse, error) {
	a, err := l.f.n.BtcWallet.NewAddress()
	if err != nil {
		return nil, status.Error(codes.Unavailable, err.Error())
	}
	return &lnrpc.NewAddressResponse{Address: a}, nil
}

// ---------------------------------------------------------------------------
// Router

type fakeRouter struct {
	routerrpc.RouterClient
	f *fakeLnd
}

type payStream struct {
	fakeStream
	f    *fakeLnd
	req  *routerrpc.SendPaymentRequest
	fn   string
	done bool
}

func (s *payStream) Recv() (*lnrpc.Payment, error) {
	if s.done {
		return nil, io.EOF
	}
	s.done = true
	n := s.f.n
	req := s.req
	scid := ""
	if len(req.OutgoingChanIds) > 0 {
		scid = scidOfLndChan(req.OutgoingChanIds[0])
	} else if req.OutgoingChanId != 0 {
		scid = scidOfLndChan(req.OutgoingChanId)
	}
	pre, err := n.w.LN.PayVia(n, &PayArgs{Fn: s.fn, Payreq: req.PaymentRequest, Scid: scid, Lnd: req})
	if err != nil {
		msg := err.Error()
		if strings.HasPrefix(msg, "payment failure ") {
			return &lnrpc.Payment{Status: lnrpc.Payment_FAILED, FailureReason: lnrpc.PaymentFailureReason_FAILURE_REASON_NO_ROUTE}, nil
		}
		return nil, status.Error(codes.Unknown, msg)
	}
	return &lnrpc.Payment{Status: lnrpc.Payment_SUCCEEDED, PaymentPreimage: pre}, nil
}

func (r *fakeRouter) SendPaymentV2(ctx context.Context, in *routerrpc.SendPaymentRequest, opts ...grpc.CallOption) (routerrpc.Router_SendPaymentV2Client, error) {
	fn := r.f.current().fn
	if fn == "" {
		fn = "SendPaymentV2"
	}
	return &payStream{fakeStream: fakeStream{ctx: ctx}, f: r.f, req: in, fn: fn}, nil
}

type trackStream struct {
	fakeStream
	f    *fakeLnd
	hash string
	done bool
}

func (s *trackStream) Recv() (*lnrpc.Payment, error) {
	if s.done {
		return nil, io.EOF
	}
	s.done = true
	n := s.f.n
	pre, err := n.w.LN.RecoverHashCtx(s.ctx, n, s.hash)
	if err == ErrRecoverDeadline {
		return nil, status.Error(codes.DeadlineExceeded, "context deadline exceeded")
	}
	if err != nil {
		switch err.Error() {
		case "claim payment was not found":
			return nil, status.Error(codes.NotFound, "payment isn't initiated")
		case "lightning rpc unavailable":
			return nil, status.Error(codes.Unavailable, err.Error())
		}
		return &lnrpc.Payment{Status: lnrpc.Payment_FAILED, PaymentHash: s.hash}, nil
	}
	return &lnrpc.Payment{Status: lnrpc.Payment_SUCCEEDED, PaymentPreimage: pre, PaymentHash: s.hash}, nil
}

func (r *fakeRouter) TrackPaymentV2(ctx context.Context, in *routerrpc.TrackPaymentRequest, opts ...grpc.CallOption) (routerrpc.Router_TrackPaymentV2Client, error) {
	return &trackStream{fakeStream: fakeStream{ctx: ctx}, f: r.f, hash: hex.EncodeToString(in.PaymentHash)}, nil
}

func (r *fakeRouter) BuildRoute(ctx context.Context, in *routerrpc.BuildRouteRequest, opts ...grpc.CallOption) (*routerrpc.BuildRouteResponse, error) {
	n := r.f.n
	f := n.op("ln.probe")
	if f != nil && f.Kind == "err" {
		return nil, status.Error(codes.Unavailable, "lnd: rpc unavailable")
	}
	return &routerrpc.BuildRouteResponse{Route: &lnrpc.Route{TotalAmtMsat: in.AmtMsat, Hops: []*lnrpc.Hop{{ChanId: in.OutgoingChanId, AmtToForwardMsat: in.AmtMsat, PubKey: hex.EncodeToString(in.HopPubkeys[0])}}}}, nil
}

func (r *fakeRouter) SendToRouteV2(ctx context.Context, in *routerrpc.SendToRouteRequest, opts ...grpc.CallOption) (*lnrpc.HTLCAttempt, error) {
	n := r.f.n
	// a probe: unknown payment hash; the receiver answers incorrect_or_unknown_payment_details
	// when the amount fits the channel, otherwise the channel fails it
	code := lnrpc.Failure_INCORRECT_OR_UNKNOWN_PAYMENT_DETAILS
	if in.Route != nil && len(in.Route.Hops) > 0 {
		ch := n.w.LN.channel(scidOfLndChan(in.Route.Hops[0].ChanId))
		if ch == nil || ch.peerOf(n.ID) < 0 || !ch.Active {
			code = lnrpc.Failure_UNKNOWN_NEXT_PEER
		} else if ch.spendable(n.ID) < uint64(in.Route.TotalAmtMsat) {
			code = lnrpc.Failure_TEMPORARY_CHANNEL_FAILURE
		}
	}
	return &lnrpc.HTLCAttempt{Status: lnrpc.HTLCAttempt_FAILED, Failure: &lnrpc.Failure{Code: code}}, nil
}

// ---------------------------------------------------------------------------
// Invoices

type fakeInvoices struct {
	invoicesrpc.InvoicesClient
	f *fakeLnd
}

type invStream struct {
	fakeStream
	q *lndQueue
}

func (s *invStream) Recv() (*lnrpc.Invoice, error) {
	x, err := s.q.pop(s.ctx, "ln.invoice.wait")
	if err != nil {
		return nil, err
	}
	return x.(*lnrpc.Invoice), nil
}

func (i *fakeInvoices) SubscribeSingleInvoice(ctx context.Context, in *invoicesrpc.SubscribeSingleInvoiceRequest, opts ...grpc.CallOption) (invoicesrpc.Invoices_SubscribeSingleInvoiceClient, error) {
	n := i.f.n
	f := n.op("ln.notifier")
	if f != nil && f.Kind == "err" {
		return nil, status.Error(codes.Unavailable, "lnd: rpc unavailable")
	}
	rt.ReleaseLineage()
	q := newLndQueue(n)
	hash := hex.EncodeToString(in.RHash)
	inc := n.inc
	n.w.LN.OnSettle(hash, func(inv *Invoice) {
		if n.Up && n.inc == inc {
			q.push(&lnrpc.Invoice{State: lnrpc.Invoice_SETTLED, RHash: in.RHash})
		}
	})
	q.push(&lnrpc.Invoice{State: lnrpc.Invoice_OPEN, RHash: in.RHash})
	return &invStream{fakeStream{ctx: ctx}, q}, nil
}

// ---------------------------------------------------------------------------
// ChainNotifier

type fakeChainNotifier struct {
	chainrpc.ChainNotifierClient
	f *fakeLnd
}

type confStream struct {
	fakeStream
	q *lndQueue
}

func (s *confStream) Recv() (*chainrpc.ConfEvent, error) {
	x, err := s.q.pop(s.ctx, "lnd.conf.wait")
	if err != nil {
		return nil, err
	}
	return x.(*chainrpc.ConfEvent), nil
}

func (c *fakeChainNotifier) RegisterConfirmationsNtfn(ctx context.Context, in *chainrpc.ConfRequest, opts ...grpc.CallOption) (chainrpc.ChainNotifier_RegisterConfirmationsNtfnClient, error) {
	n := c.f.n
	f := n.op("lnd.chain.register")
	if f != nil && f.Kind == "err" {
		return nil, status.Error(codes.Unavailable, "lnd: rpc unavailable")
	}
	rt.ReleaseLineage()
	h, err := chainhash.NewHash(in.Txid)
	if err != nil {
		return nil, err
	}
	txid := h.String()
	q := newLndQueue(n)
	inc := n.inc
	sent := false
	chain := n.w.BTC
	check := func() {
		if !n.Up || n.inc != inc || ctx.Err() != nil {
			return
		}
		confs := chain.Confirmations(txid)
		if sent {
			if confs == 0 {
				// reorganised out again
				sent = false
				q.push(&chainrpc.ConfEvent{Event: &chainrpc.ConfEvent_Reorg{Reorg: &chainrpc.Reorg{}}})
			}
			return
		}
		if confs >= in.NumConfs && confs > 0 {
			ch, _ := chain.ConfHeight(txid)
			raw, _ := hex.DecodeString(chain.Txs[txid].Hex)
			sent = true
			n.noteQuery("btc")
			q.push(&chainrpc.ConfEvent{Event: &chainrpc.ConfEvent_Conf{Conf: &chainrpc.ConfDetails{RawTx: raw, BlockHeight: ch}}})
		}
	}
	chain.onBlock(check)
	check()
	return &confStream{fakeStream{ctx: ctx}, q}, nil
}

type epochStream struct {
	fakeStream
	q *lndQueue
}

func (s *epochStream) Recv() (*chainrpc.BlockEpoch, error) {
	x, err := s.q.pop(s.ctx, "lnd.epoch.wait")
	if err != nil {
		return nil, err
	}
	return x.(*chainrpc.BlockEpoch), nil
}

func (c *fakeChainNotifier) RegisterBlockEpochNtfn(ctx context.Context, in *chainrpc.BlockEpoch, opts ...grpc.CallOption) (chainrpc.ChainNotifier_RegisterBlockEpochNtfnClient, error) {
	n := c.f.n
	f := n.op("lnd.chain.register")
	if f != nil && f.Kind == "err" {
		return nil, status.Error(codes.Unavailable, "lnd: rpc unavailable")
	}
	rt.ReleaseLineage()
	q := newLndQueue(n)
	inc := n.inc
	chain := n.w.BTC
	push := func() {
		if !n.Up || n.inc != inc || ctx.Err() != nil {
			return
		}
		n.served("btc", chain.Height())
		q.push(&chainrpc.BlockEpoch{Height: chain.Height()})
	}
	chain.onBlock(push)
	push()
	return &epochStream{fakeStream{ctx: ctx}, q}, nil
}

// ---------------------------------------------------------------------------
// WalletKit

type fakeWalletKit struct {
	walletrpc.WalletKitClient
	f *fakeLnd
}

func (k *fakeWalletKit) EstimateFee(ctx context.Context, in *walletrpc.EstimateFeeRequest, opts ...grpc.CallOption) (*walletrpc.EstimateFeeResponse, error) {
	a, err := (&estimatorStub{k.f.n}).EstimateFeePerKW(uint32(in.ConfTarget))
	if err != nil {
		return nil, status.Error(codes.Unavailable, err.Error())
	}
	return &walletrpc.EstimateFeeResponse{SatPerKw: int64(a)}, nil
}

func (k *fakeWalletKit) LabelTransaction(ctx context.Context, in *walletrpc.LabelTransactionRequest, opts ...grpc.CallOption) (*walletrpc.LabelTransactionResponse, error) {
	if err := k.f.n.BtcWallet.SetLabel("", "", in.Label); err != nil {
		return nil, status.Error(codes.Unavailable, err.Error())
	}
	return &walletrpc.LabelTransactionResponse{}, nil
}

func (k *fakeWalletKit) FundPsbt(ctx context.Context, in *walletrpc.FundPsbtRequest, opts ...grpc.CallOption) (*walletrpc.FundPsbtResponse, error) {
	n := k.f.n
	w := n.w
	b := n.BtcWallet
	f := n.op("btcwallet.open")
	if f != nil && f.Kind == "err" {
		return nil, status.Error(codes.Unavailable, "lnd: fundpsbt failed")
	}
	raw := in.GetRaw()
	if raw == nil || len(raw.Outputs) != 1 {
		return nil, status.Error(codes.InvalidArgument, "the simulated lnd funds templates with exactly one output")
	}
	var addr string
	var amount uint64
	for a, v := range raw.Outputs {
		addr, amount = a, v
	}
	a, err := btcutil.DecodeAddress(addr, &chaincfg.RegressionNetParams)
	if err != nil {
		return nil, status.Error(codes.InvalidArgument, err.Error())
	}
	pk, err := txscript.PayToAddrScript(a)
	if err != nil {
		return nil, status.Error(codes.InvalidArgument, err.Error())
	}
	fee, _ := b.onchain.GetFee(200)
	if b.Balance < amount+fee {
		return nil, status.Error(codes.Unknown, "insufficient funds available to construct transaction")
	}
	lay := w.Plan.Scn.Layout[n.ID]
	if lay.FeeMult > 1 && b.Balance >= amount+fee*uint64(lay.FeeMult) {
		fee *= uint64(lay.FeeMult)
		w.Probe("layout:expensive-funding")
	}
	tx := wire.NewMsgTx(2)
	in0 := wire.NewTxIn(wire.NewOutPoint(ptrHash(randHash()), 0), nil, nil)
	in0.Sequence = 0xfffffffd
	tx.AddTxIn(in0)
	var outs []*wire.TxOut
	total := amount
	if lay.Change {
		_, cs := b.newAddr()
		outs = append(outs, wire.NewTxOut(int64(b.Balance-amount-fee), cs))
		total += b.Balance - amount - fee
	}
	for i := 0; i < lay.Extra; i++ {
		_, es := b.newAddr()
		outs = append(outs, wire.NewTxOut(int64(1000+i), es))
		total += uint64(1000 + i)
	}
	if lay.DecoySameAmt {
		h := sha256.Sum256([]byte("decoy"))
		outs = append(outs, wire.NewTxOut(int64(amount), append([]byte{0x00, 0x20}, h[:]...)))
		total += amount
		if lay.DecoyLast {
			w.Probe("layout:same-value-output-after-swap-output")
		}
	}
	idx := lay.SwapIndex
	if idx < 0 {
		idx = 0
	}
	if idx > len(outs) {
		idx = len(outs)
	}
	if lay.DecoySameAmt && lay.DecoyLast && idx == len(outs) && idx > 0 {
		idx-- // keep the equal-valued decoy behind the swap output
	}
	outs = append(outs[:idx], append([]*wire.TxOut{wire.NewTxOut(int64(amount), pk)}, outs[idx:]...)...)
	for _, o := range outs {
		tx.AddTxOut(o)
	}
	if idx != 0 {
		w.Probe("layout:swap-output-not-first")
	}
	packet, err := psbt.NewFromUnsignedTx(tx)
	if err != nil {
		return nil, status.Error(codes.Internal, err.Error())
	}
	_, ws := b.newAddr()
	packet.Inputs[0].WitnessUtxo = wire.NewTxOut(int64(total+fee), ws)
	var buf bytes.Buffer
	if err := packet.Serialize(&buf); err != nil {
		return nil, status.Error(codes.Internal, err.Error())
	}
	cur := k.f.current()
	n.mu.Lock()
	k.f.funded[tx.TxIn[0].PreviousOutPoint.String()] = &lndFunded{swapIdx: idx, params: cur.opening, amount: amount, fee: fee}
	n.mu.Unlock()
	return &walletrpc.FundPsbtResponse{FundedPsbt: buf.Bytes(), ChangeOutputIndex: -1}, nil
}

func (k *fakeWalletKit) FinalizePsbt(ctx context.Context, in *walletrpc.FinalizePsbtRequest, opts ...grpc.CallOption) (*walletrpc.FinalizePsbtResponse, error) {
	n := k.f.n
	f := n.op("btcwallet.finalize")
	if f != nil && f.Kind == "err" {
		return nil, status.Error(codes.Unavailable, "lnd: finalizepsbt failed")
	}
	packet, err := psbt.NewFromRawBytes(bytes.NewReader(in.FundedPsbt), false)
	if err != nil {
		return nil, status.Error(codes.InvalidArgument, err.Error())
	}
	final := packet.UnsignedTx.Copy()
	for i := range final.TxIn {
		final.TxIn[i].Witness = wire.TxWitness{bytes.Repeat([]byte{0x30}, 71), n.BtcWallet.key(0).PubKey().SerializeCompressed()}
		if n.w.Plan.Scn.Layout[n.ID].NestedInput {
			// the wallet picked a nested-segwit (np2wkh) coin: finalising adds a scriptSig, and
			// the id of the final transaction is no longer the id of the unsigned one
			pkh := btcutil.Hash160(n.BtcWallet.key(0).PubKey().SerializeCompressed())
			final.TxIn[i].SignatureScript = append([]byte{0x16, 0x00, 0x14}, pkh...)
			packet.Inputs[i].FinalScriptSig = final.TxIn[i].SignatureScript
			n.w.Probe("layout:nested-segwit-input")
		}
		var wb bytes.Buffer
		psbtWriteWitness(&wb, final.TxIn[i].Witness)
		packet.Inputs[i].FinalScriptWitness = wb.Bytes()
	}
	var pb, tb bytes.Buffer
	if err := packet.Serialize(&pb); err != nil {
		return nil, status.Error(codes.Internal, err.Error())
	}
	final.Serialize(&tb)
	return &walletrpc.FinalizePsbtResponse{SignedPsbt: pb.Bytes(), RawFinalTx: tb.Bytes()}, nil
}

func psbtWriteWitness(w io.Writer, wit wire.TxWitness) {
	wire.WriteVarInt(w, 0, uint64(len(wit)))
	for _, it := range wit {
		wire.WriteVarBytes(w, 0, it)
	}
}

func (k *fakeWalletKit) PublishTransaction(ctx context.Context, in *walletrpc.Transaction, opts ...grpc.CallOption) (*walletrpc.PublishResponse, error) {
	n := k.f.n
	w := n.w
	b := n.BtcWallet
	tx := wire.NewMsgTx(2)
	if err := tx.Deserialize(bytes.NewReader(in.TxHex)); err != nil {
		return nil, status.Error(codes.InvalidArgument, err.Error())
	}
	// (the id of the final transaction differs from the unsigned one's when an input needs a
	// scriptSig, so fundings are remembered by the outpoint they spend)
	n.mu.Lock()
	var fd *lndFunded
	if len(tx.TxIn) > 0 {
		fd = k.f.funded[tx.TxIn[0].PreviousOutPoint.String()]
	}
	n.mu.Unlock()
	rawHex := hex.EncodeToString(in.TxHex)
	if fd == nil {
		// a spend built by the adapter itself (claim, refund, coop)
		f := n.op("btcwallet.spend")
		if f != nil && f.Kind == "err" {
			return nil, status.Error(codes.Unavailable, "lnd: rpc unavailable")
		}
		if _, err := w.BTC.Broadcast(n.ID, rawHex, "lnd-publish"); err != nil {
			return nil, status.Error(codes.Unknown, err.Error())
		}
		if f != nil && f.Kind == "errafter" {
			return nil, status.Error(codes.DeadlineExceeded, "lnd: publish acknowledged late (timeout)")
		}
		return &walletrpc.PublishResponse{}, nil
	}
	f := n.op("btcwallet.publish")
	if f != nil && f.Kind == "err" {
		return nil, status.Error(codes.Unavailable, "lnd: rpc unavailable")
	}
	txid, err := w.BTC.Broadcast(n.ID, rawHex, "opening")
	if err != nil {
		return nil, status.Error(codes.Unknown, err.Error())
	}
	so := &SwapOutput{TxID: txid, Vout: uint32(fd.swapIdx), Owner: n.ID, Amount: fd.amount, PkScript: tx.TxOut[fd.swapIdx].PkScript, CSV: 1008}
	if p := fd.params; p != nil {
		tk, _ := hex.DecodeString(p.TakerPubkey)
		mk, _ := hex.DecodeString(p.MakerPubkey)
		ph, _ := hex.DecodeString(p.ClaimPaymentHash)
		// the witness script is rebuilt from the protocol document, not taken from the adapter
		so.Script = RefOpeningScript(tk, mk, ph, 1008)
		so.TakerPub, so.MakerPub, so.PayHash = p.TakerPubkey, p.MakerPubkey, p.ClaimPaymentHash
		if !bytes.Equal(p2wsh(so.Script), so.PkScript) {
			w.Probe("lnd:opening-address-is-not-the-swap-script")
			so.ScriptMismatch = true
		}
	}
	w.BTC.RegisterSwap(so)
	b.Balance -= fd.amount + fd.fee
	b.Openings = append(b.Openings, txid)
	lay := w.Plan.Scn.Layout[n.ID]
	if lay.Change && lay.SpendChange && fd.swapIdx != 0 {
		w.Sim.After(ms(45000), "wallet", "spend-change", func() { w.BTC.SpendPlain(n.ID, txid, 0) })
	}
	w.Observe(&Obs{Node: n.ID, Inc: n.inc, Kind: "wallet.opening", Str: txid, Num: int64(fd.swapIdx), Tx: &TxObs{Chain: "btc", TxID: txid, Hex: rawHex, Kind: "opening", Err: ackLost(f)}})
	if f != nil && f.Kind == "errafter" {
		return nil, status.Error(codes.DeadlineExceeded, "lnd: publish acknowledged late (timeout)")
	}
	return &walletrpc.PublishResponse{}, nil
}

var _ = errors.New
var _ = time.Second
