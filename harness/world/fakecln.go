package world

import (
	"bytes"
	"context"
	"crypto/sha256"
	"encoding/base64"
	"encoding/hex"
	"encoding/json"
	"errors"
	"fmt"
	"strconv"
	"strings"
	"time"

	"github.com/btcsuite/btcd/btcutil"
	"github.com/btcsuite/btcd/btcutil/psbt"
	"github.com/btcsuite/btcd/chaincfg"
	"github.com/btcsuite/btcd/txscript"
	"github.com/btcsuite/btcd/wire"
	"github.com/elementsproject/glightning/gbitcoin"
	"github.com/elementsproject/glightning/jrpc2"
	"github.com/elementsproject/peerswap/clightning"
	"github.com/elementsproject/peerswap/swap"
	"github.com/elementsproject/peerswap/verifsim/rt"
)

// Tier 3: a simulated lightningd (and the bitcoind the plugin talks to) behind
// glightning's transports. The real clightning adapter (ClightningClient:
// Lightning + Bitcoin wallet side) runs unmodified; its JSON-RPC requests are
// answered here from the simulated world, like the simulated LND of tier 2.

type fakeCln struct {
	n      *Node
	ann    map[string]*lndAnn
	funded map[string]*clnPrepared // txid of the unsigned tx -> prepared funding
	pays   map[string]*clnPay      // payment hash -> last sendpay
}

type clnPrepared struct {
	unsigned *wire.MsgTx
	final    *wire.MsgTx
	swapIdx  int
	params   *swap.OpeningParams
	amount   uint64
	fee      uint64
}

type clnPay struct {
	wait func() (string, error)
	done bool
	pre  string
	err  error
}

var curWorld *World

func init() {
	jrpc2.SimTransport = func(c *jrpc2.Client, m jrpc2.Method, resp interface{}, withTimeout bool) (bool, error) {
		n := clnNodeOfTask()
		if n == nil || n.cln == nil {
			return true, errors.New("simulated lightningd: no such node (request from outside a node task)")
		}
		return true, n.cln.request(m, resp)
	}
	gbitcoin.SimTransport = func(b *gbitcoin.Bitcoin, m jrpc2.Method, resp interface{}) (bool, error) {
		n := clnNodeOfTask()
		if n == nil || n.cln == nil {
			return true, errors.New("simulated bitcoind: no such node")
		}
		return true, n.cln.bitcoind(m, resp)
	}
}

func clnNodeOfTask() *Node {
	t := rt.Self()
	w := curWorld
	if t == nil || w == nil || t.Node < 0 || t.Node >= len(w.Nodes) {
		return nil
	}
	return w.Nodes[t.Node]
}

func (f *fakeCln) annotate(a *lndAnn) func() {
	k := taskKey()
	f.n.mu.Lock()
	prev := f.ann[k]
	f.ann[k] = a
	f.n.mu.Unlock()
	return func() {
		f.n.mu.Lock()
		if prev == nil {
			delete(f.ann, k)
		} else {
			f.ann[k] = prev
		}
		f.n.mu.Unlock()
	}
}

func (f *fakeCln) current() *lndAnn {
	f.n.mu.Lock()
	defer f.n.mu.Unlock()
	if a := f.ann[taskKey()]; a != nil {
		return a
	}
	return &lndAnn{}
}

func rpcErr(code int, msg string, data interface{}) error {
	e := &jrpc2.RpcError{Code: code, Message: msg}
	if data != nil {
		e.Data, _ = json.Marshal(data)
	}
	return e
}

func fill(resp interface{}, v interface{}) error {
	b, err := json.Marshal(v)
	if err != nil {
		return err
	}
	return json.Unmarshal(b, resp)
}

func amountOf(raw json.RawMessage) uint64 {
	s := strings.Trim(string(raw), "\"")
	s = strings.TrimSuffix(strings.TrimSuffix(s, "msat"), "sat")
	v, _ := strconv.ParseUint(s, 10, 64)
	return v
}

// request answers one lightningd JSON-RPC request.
func (f *fakeCln) request(m jrpc2.Method, resp interface{}) error {
	n := f.n
	w := n.w
	raw, _ := json.Marshal(m)
	var p map[string]json.RawMessage
	json.Unmarshal(raw, &p)
	str := func(k string) string {
		var s string
		json.Unmarshal(p[k], &s)
		return s
	}
	unavailable := func(site string, light bool) error {
		var flt *Fault
		if light {
			flt = n.lightOp(site)
		} else {
			flt = n.op(site)
		}
		if flt != nil && flt.Kind == "err" {
			return rpcErr(-1, "lightning rpc unavailable", nil)
		}
		return nil
	}
	switch m.Name() {
	case "getinfo":
		return fill(resp, map[string]interface{}{"id": n.Pubkey, "version": "v24.11", "network": "regtest", "blockheight": w.BTC.Height()})
	case "listpeerchannels":
		if err := unavailable("ln.spendable", false); err != nil {
			return err
		}
		var chs []map[string]interface{}
		for _, k := range rt.SortedKeys(w.LN.Channels) {
			ch := w.LN.Channels[k]
			peer := ch.peerOf(n.ID)
			if peer < 0 {
				continue
			}
			state := "CHANNELD_NORMAL"
			if !ch.Active {
				state = "CHANNELD_AWAITING_LOCKIN"
			}
			chs = append(chs, map[string]interface{}{"peer_id": w.Nodes[peer].Pubkey, "peer_connected": w.connectedTo(n.ID, peer), "state": state, "short_channel_id": NormScid(ch.Scid),
				"total_msat": ch.BalA + ch.BalB, "to_us_msat": ch.spendable(n.ID), "spendable_msat": ch.spendable(n.ID), "receivable_msat": ch.spendable(peer)})
		}
		return fill(resp, map[string]interface{}{"channels": chs})
	case "listchannels":
		return fill(resp, map[string]interface{}{"channels": []interface{}{}})
	case "listpeers":
		if err := unavailable("ln.listpeers", true); err != nil {
			return err
		}
		var ps []map[string]interface{}
		want := str("id")
		for _, o := range w.Nodes {
			if o.ID == n.ID || (want != "" && o.Pubkey != want) || n.ext.disconnected[o.ID] {
				continue
			}
			if w.connectedTo(n.ID, o.ID) {
				ps = append(ps, map[string]interface{}{"id": o.Pubkey, "connected": true})
			}
		}
		return fill(resp, map[string]interface{}{"peers": ps})
	case "sendcustommsg":
		flt := n.op("net.send")
		if flt != nil && flt.Kind == "err" {
			return rpcErr(-1, "peer is not connected", nil)
		}
		msg, err := hex.DecodeString(str("msg"))
		if err != nil || len(msg) < 2 {
			return rpcErr(-32602, "msg: should be a hex data", nil)
		}
		typ := int(msg[0])<<8 | int(msg[1])
		if err := w.Net.Send(n.ID, str("node_id"), msg[2:], typ); err != nil {
			return rpcErr(-1, err.Error(), nil)
		}
		if flt != nil && flt.Kind == "errafter" {
			return errors.New("Request timed out")
		}
		return fill(resp, map[string]interface{}{"status": "Message sent to connectd for delivery"})
	case "invoice":
		flt := n.op("ln.invoice")
		if flt != nil && flt.Kind == "err" {
			return rpcErr(-1, "lightning rpc unavailable", nil)
		}
		label := str("label")
		swapID, typ := label, swap.INVOICE_CLAIM
		if i := strings.LastIndex(label, "_"); i > 0 {
			swapID = label[:i]
			if strings.Contains(strings.ToLower(label[i+1:]), "fee") {
				typ = swap.INVOICE_FEE
			}
		}
		var expiry, cltv uint64
		json.Unmarshal(p["expiry"], &expiry)
		json.Unmarshal(p["cltv"], &cltv)
		if prev := w.LN.invoiceByLabel(n.ID, label); prev != nil {
			return rpcErr(900, "Duplicate label '"+label+"'", nil)
		}
		inv, err := w.LN.NewInvoice(n.ID, amountOf(p["amount_msat"]), str("preimage"), swapID, typ, str("description"), expiry, cltv)
		if err != nil {
			return rpcErr(-1, err.Error(), nil)
		}
		inv.ClnLabel = label
		if flt != nil && flt.Kind == "errafter" {
			return errors.New("Request timed out")
		}
		return fill(resp, map[string]interface{}{"bolt11": inv.Payreq, "payment_hash": inv.Hash, "expires_at": uint64(inv.ExpiresAt / time.Second)})
	case "decode", "decodepay":
		n.lightOp("ln.decode")
		s := str("string")
		if s == "" {
			s = str("bolt11")
		}
		b, err := DecodePayreqBody(s)
		if err != nil {
			if m.Name() == "decode" {
				return fill(resp, map[string]interface{}{"type": "bolt11 invoice", "valid": false})
			}
			return rpcErr(-1, "Invalid bolt11: "+err.Error(), nil)
		}
		dec := map[string]interface{}{"type": "bolt11 invoice", "valid": true, "currency": "bcrt", "created_at": 1, "expiry": 3600, "payee": b.D, "amount_msat": b.A,
			"payment_hash": b.H, "description": b.L, "min_final_cltv_expiry": b.C, "payment_secret": strings.Repeat("5e", 32)}
		if len(b.R) > 0 {
			var routes [][]map[string]interface{}
			for _, h := range b.R {
				routes = append(routes, []map[string]interface{}{{"pubkey": h.Pubkey, "short_channel_id": NormScid(h.Scid), "fee_base_msat": 0, "fee_proportional_millionths": 0, "cltv_expiry_delta": h.Delta}})
			}
			dec["routes"] = routes
			w.Probe("ln:invoice-with-route-hints-decoded")
		}
		return fill(resp, dec)
	case "sendpay":
		var req struct {
			Route []struct {
				Id      string          `json:"id"`
				Channel string          `json:"channel"`
				Amount  json.RawMessage `json:"amount_msat"`
				Delay   uint32          `json:"delay"`
			} `json:"route"`
			PaymentHash string          `json:"payment_hash"`
			Amount      json.RawMessage `json:"amount_msat"`
			Bolt11      string          `json:"bolt11"`
			PartId      uint64          `json:"partid"`
		}
		json.Unmarshal(raw, &req)
		if len(req.Route) == 0 {
			return rpcErr(-32602, "route: empty", nil)
		}
		fn := f.current().fn
		if fn == "" {
			fn = "sendpay"
		}
		if req.Bolt11 == "" {
			// a probe: unknown hash on purpose; nothing is locked for long
			ch := w.LN.channel(req.Route[0].Channel)
			res := &clnPay{done: true}
			switch {
			case ch == nil || ch.peerOf(n.ID) < 0 || !ch.Active:
				res.err = rpcErr(204, "failed: WIRE_UNKNOWN_NEXT_PEER", map[string]interface{}{"failcode": 16394, "erring_index": 0})
			case ch.spendable(n.ID) < amountOf(req.Route[0].Amount):
				res.err = rpcErr(204, "failed: WIRE_TEMPORARY_CHANNEL_FAILURE", map[string]interface{}{"failcode": 4103, "erring_index": 0})
			default:
				res.err = rpcErr(203, "failed: WIRE_INCORRECT_OR_UNKNOWN_PAYMENT_DETAILS", map[string]interface{}{"failcode": 16399, "erring_index": 1})
			}
			f.n.mu.Lock()
			f.pays[req.PaymentHash] = res
			f.n.mu.Unlock()
			return fill(resp, map[string]interface{}{"payment_hash": req.PaymentHash, "status": "pending"})
		}
		a := &PayArgs{Fn: fn, Payreq: req.Bolt11, Scid: req.Route[0].Channel, Async: true,
			Cln: &ClnRoute{Hops: len(req.Route), Id: req.Route[0].Id, Channel: req.Route[0].Channel, AmountMsat: amountOf(req.Route[0].Amount), Delay: req.Route[0].Delay, ReqMsat: amountOf(req.Amount), Parts: req.PartId}}
		pre, err := w.LN.PayVia(n, a)
		res := &clnPay{}
		switch {
		case err == ErrPayStarted:
			res.wait = a.Wait
		case err != nil:
			res.done, res.err = true, err
		default:
			res.done, res.pre = true, pre
		}
		f.n.mu.Lock()
		f.pays[req.PaymentHash] = res
		f.n.mu.Unlock()
		if res.done && res.err != nil && (strings.Contains(res.err.Error(), "unavailable") || strings.Contains(res.err.Error(), "transition")) {
			// what lightningd answers right away: rpc trouble, or a payment already in progress
			return rpcErr(200, res.err.Error(), nil)
		}
		status := "pending"
		if res.done && res.err == nil {
			status = "complete"
		}
		return fill(resp, map[string]interface{}{"payment_hash": req.PaymentHash, "status": status, "payment_preimage": res.pre})
	case "waitsendpay":
		hash := str("payment_hash")
		f.n.mu.Lock()
		res := f.pays[hash]
		f.n.mu.Unlock()
		if res == nil {
			return rpcErr(208, "Never attempted payment for '"+hash+"'", nil)
		}
		if !res.done {
			res.pre, res.err = res.wait()
			res.done = true
		}
		if res.err != nil {
			if _, ok := res.err.(*jrpc2.RpcError); ok {
				return res.err
			}
			code, fc := 204, 4103
			if strings.Contains(res.err.Error(), "incorrect_or_unknown") {
				code, fc = 203, 16399
			}
			if strings.Contains(res.err.Error(), "stream closed") || strings.Contains(res.err.Error(), "timed out") {
				return errors.New("Pipe closed unexpectedly, nil result")
			}
			return rpcErr(code, "failed: "+res.err.Error(), map[string]interface{}{"failcode": fc, "erring_index": 1})
		}
		return fill(resp, map[string]interface{}{"payment_hash": hash, "status": "complete", "payment_preimage": res.pre})
	case "listsendpays":
		flt := n.op("ln.recover")
		hash := str("payment_hash")
		po := &PayObs{Payer: n.ID, Hash: hash, Fn: "RecoverClaimPayment", BtcHeight: w.BTC.Height(), LHeight: w.LBTC.Height()}
		w.Observe(&Obs{Node: n.ID, Inc: n.inc, Kind: "pay.recover", Pay: po})
		if flt != nil && flt.Kind == "err" {
			return rpcErr(-1, "lightning rpc unavailable", nil)
		}
		var ps []map[string]interface{}
		for _, pm := range w.LN.PaymentsFor(n.ID, hash) {
			st := map[string]string{"pending": "pending", "settled": "complete", "failed": "failed"}[pm.State]
			ps = append(ps, map[string]interface{}{"payment_hash": hash, "status": st, "payment_preimage": pm.Preimage, "amount_msat": pm.AmountMsat})
			if pm.State == "pending" {
				// a later waitsendpay follows this HTLC
				pmc := pm
				f.n.mu.Lock()
				f.pays[hash] = &clnPay{wait: func() (string, error) {
					pmc.Done.Wait("ln.recoverwait")
					n.checkAlive()
					if pmc.State == "settled" {
						return pmc.Preimage, nil
					}
					return "", fmt.Errorf("payment failure %s", pmc.Reason)
				}}
				f.n.mu.Unlock()
			}
		}
		return fill(resp, map[string]interface{}{"payments": ps})
	case "waitinvoice":
		flt := n.op("ln.notifier")
		if flt != nil && flt.Kind == "err" {
			return rpcErr(-1, "lightning rpc unavailable", nil)
		}
		rt.ReleaseLineage()
		inv := w.LN.invoiceByLabel(n.ID, str("label"))
		if inv == nil {
			return rpcErr(-1, "Label not found", nil)
		}
		ev := rt.NewEvent("waitinvoice")
		inc := n.inc
		w.LN.OnSettle(inv.Hash, func(*Invoice) { ev.Fire() })
		left := inv.ExpiresAt - w.Sim.Now()
		if inv.State != "settled" {
			if left <= 0 || !ev.WaitTimeout("ln.waitinvoice", left) {
				n.checkAlive()
				if inv.State != "settled" {
					return rpcErr(903, "invoice expired", map[string]interface{}{"label": str("label"), "status": "expired"})
				}
			}
		}
		n.checkAlive()
		if n.inc != inc {
			return errors.New("Pipe closed unexpectedly, nil result")
		}
		return fill(resp, map[string]interface{}{"label": str("label"), "bolt11": inv.Payreq, "payment_hash": inv.Hash, "status": "paid", "amount_msat": inv.AmountMsat})
	case "newaddr":
		a, err := n.BtcWallet.NewAddress()
		if err != nil {
			return rpcErr(-1, err.Error(), nil)
		}
		return fill(resp, map[string]interface{}{"bech32": a})
	case "listfunds":
		bal, err := n.BtcWallet.GetOnchainBalance()
		if err != nil {
			return rpcErr(-1, err.Error(), nil)
		}
		return fill(resp, map[string]interface{}{"outputs": []map[string]interface{}{{"txid": strings.Repeat("ab", 32), "output": 0, "amount_msat": bal * 1000, "status": "confirmed"}}})
	case "txprepare":
		return f.txprepare(p, resp)
	case "setpsbtversion":
		return fill(resp, map[string]interface{}{"psbt": str("psbt")})
	case "txsend":
		return f.txsend(str("txid"), resp)
	}
	w.Infraf("simulated lightningd: method %q is not modelled", m.Name())
	return rpcErr(-32601, "Unknown command '"+m.Name()+"'", nil)
}

func (f *fakeCln) txprepare(p map[string]json.RawMessage, resp interface{}) error {
	n := f.n
	w := n.w
	b := n.BtcWallet
	flt := n.op("btcwallet.open")
	if flt != nil && flt.Kind == "err" {
		return rpcErr(-1, "txprepare failed", nil)
	}
	var outs []map[string]json.RawMessage
	json.Unmarshal(p["outputs"], &outs)
	if len(outs) != 1 || len(outs[0]) != 1 {
		return rpcErr(-32602, "the simulated lightningd prepares transactions with exactly one output", nil)
	}
	var addr string
	var amount uint64
	for a, v := range outs[0] {
		addr, amount = a, amountOf(v)
	}
	a, err := btcutil.DecodeAddress(addr, &chaincfg.RegressionNetParams)
	if err != nil {
		return rpcErr(-1, err.Error(), nil)
	}
	pk, err := txscript.PayToAddrScript(a)
	if err != nil {
		return rpcErr(-1, err.Error(), nil)
	}
	fee, _ := b.onchain.GetFee(200)
	if b.Balance < amount+fee {
		return rpcErr(301, "Could not afford "+strconv.FormatUint(amount, 10)+"sat using all 1 available UTXOs", nil)
	}
	lay := w.Plan.Scn.Layout[n.ID]
	if lay.FeeMult > 1 && b.Balance >= amount+fee*uint64(lay.FeeMult) {
		fee *= uint64(lay.FeeMult)
		w.Probe("layout:expensive-funding")
	}
	tx := wire.NewMsgTx(2)
	in0 := wire.NewTxIn(wire.NewOutPoint(ptrHash(randHash()), 0), nil, nil)
	in0.Sequence = 0xfffffffd
	tx.AddTxIn(in0)
	var outsTx []*wire.TxOut
	total := amount
	if lay.Change {
		_, cs := b.newAddr()
		outsTx = append(outsTx, wire.NewTxOut(int64(b.Balance-amount-fee), cs))
		total += b.Balance - amount - fee
	}
	for i := 0; i < lay.Extra; i++ {
		_, es := b.newAddr()
		outsTx = append(outsTx, wire.NewTxOut(int64(1000+i), es))
		total += uint64(1000 + i)
	}
	if lay.DecoySameAmt {
		h := sha256.Sum256([]byte("decoy"))
		outsTx = append(outsTx, wire.NewTxOut(int64(amount), append([]byte{0x00, 0x20}, h[:]...)))
		total += amount
	}
	idx := lay.SwapIndex
	if idx < 0 {
		idx = 0
	}
	if idx > len(outsTx) {
		idx = len(outsTx)
	}
	if lay.DecoySameAmt && lay.DecoyLast && idx == len(outsTx) && idx > 0 {
		idx--
	}
	outsTx = append(outsTx[:idx], append([]*wire.TxOut{wire.NewTxOut(int64(amount), pk)}, outsTx[idx:]...)...)
	for _, o := range outsTx {
		tx.AddTxOut(o)
	}
	if idx != 0 {
		w.Probe("layout:swap-output-not-first")
	}
	packet, err := psbt.NewFromUnsignedTx(tx)
	if err != nil {
		return rpcErr(-1, err.Error(), nil)
	}
	_, ws := b.newAddr()
	packet.Inputs[0].WitnessUtxo = wire.NewTxOut(int64(total+fee), ws)
	var pb bytes.Buffer
	packet.Serialize(&pb)
	final := tx.Copy()
	final.TxIn[0].Witness = wire.TxWitness{bytes.Repeat([]byte{0x30}, 71), b.key(0).PubKey().SerializeCompressed()}
	if lay.NestedInput {
		pkh := btcutil.Hash160(b.key(0).PubKey().SerializeCompressed())
		final.TxIn[0].SignatureScript = append([]byte{0x16, 0x00, 0x14}, pkh...)
		w.Probe("layout:nested-segwit-input")
	}
	var ub bytes.Buffer
	tx.Serialize(&ub)
	cur := f.current()
	n.mu.Lock()
	f.funded[tx.TxHash().String()] = &clnPrepared{unsigned: tx, final: final, swapIdx: idx, params: cur.opening, amount: amount, fee: fee}
	n.mu.Unlock()
	return fill(resp, map[string]interface{}{"psbt": base64.StdEncoding.EncodeToString(pb.Bytes()), "unsigned_tx": hex.EncodeToString(ub.Bytes()), "txid": tx.TxHash().String()})
}

func (f *fakeCln) txsend(txid string, resp interface{}) error {
	n := f.n
	w := n.w
	b := n.BtcWallet
	n.mu.Lock()
	fd := f.funded[txid]
	n.mu.Unlock()
	if fd == nil {
		return rpcErr(-1, "txid does not match any prepared transaction", nil)
	}
	flt := n.op("btcwallet.publish")
	if flt != nil && flt.Kind == "err" {
		return rpcErr(-1, "Error broadcasting transaction", nil)
	}
	var fb bytes.Buffer
	fd.final.Serialize(&fb)
	rawHex := hex.EncodeToString(fb.Bytes())
	finalID, err := w.BTC.Broadcast(n.ID, rawHex, "opening")
	if err != nil {
		return rpcErr(-1, "Error broadcasting transaction: "+err.Error(), nil)
	}
	so := &SwapOutput{TxID: finalID, Vout: uint32(fd.swapIdx), Owner: n.ID, Amount: fd.amount, PkScript: fd.final.TxOut[fd.swapIdx].PkScript, CSV: 1008}
	if p := fd.params; p != nil {
		tk, _ := hex.DecodeString(p.TakerPubkey)
		mk, _ := hex.DecodeString(p.MakerPubkey)
		ph, _ := hex.DecodeString(p.ClaimPaymentHash)
		so.Script = RefOpeningScript(tk, mk, ph, 1008)
		so.TakerPub, so.MakerPub, so.PayHash = p.TakerPubkey, p.MakerPubkey, p.ClaimPaymentHash
		if !bytes.Equal(p2wsh(so.Script), so.PkScript) {
			w.Probe("cln:opening-address-is-not-the-swap-script")
			so.ScriptMismatch = true
		}
	}
	w.BTC.RegisterSwap(so)
	b.Balance -= fd.amount + fd.fee
	b.Openings = append(b.Openings, finalID)
	lay := w.Plan.Scn.Layout[n.ID]
	if lay.Change && lay.SpendChange && fd.swapIdx != 0 {
		w.Sim.After(ms(45000), "wallet", "spend-change", func() { w.BTC.SpendPlain(n.ID, finalID, 0) })
	}
	w.Observe(&Obs{Node: n.ID, Inc: n.inc, Kind: "wallet.opening", Str: finalID, Num: int64(fd.swapIdx), Tx: &TxObs{Chain: "btc", TxID: finalID, Hex: rawHex, Kind: "opening", Err: ackLost(flt)}})
	if flt != nil && flt.Kind == "errafter" {
		return errors.New("Request timed out")
	}
	return fill(resp, map[string]interface{}{"tx": rawHex, "txid": finalID, "psbt": ""})
}

// bitcoind answers the requests the adapter sends to bitcoind directly.
func (f *fakeCln) bitcoind(m jrpc2.Method, resp interface{}) error {
	n := f.n
	w := n.w
	raw, _ := json.Marshal(m)
	var p map[string]json.RawMessage
	json.Unmarshal(raw, &p)
	switch m.Name() {
	case "sendrawtransaction":
		var h string
		json.Unmarshal(p["hexstring"], &h)
		flt := n.op("btcwallet.spend")
		if flt != nil && flt.Kind == "err" {
			return errors.New("bitcoind: connection refused")
		}
		txid, err := w.BTC.Broadcast(n.ID, h, "cln-sendraw")
		if err != nil {
			return &jrpc2.RpcError{Code: -26, Message: err.Error()}
		}
		if flt != nil && flt.Kind == "errafter" {
			return errors.New("bitcoind: request timed out")
		}
		return fill(resp, txid)
	case "ping":
		return nil
	}
	w.Infraf("simulated bitcoind: method %q is not modelled", m.Name())
	return &jrpc2.RpcError{Code: -32601, Message: "Method not found"}
}

// ---------------------------------------------------------------------------
// shim + wiring

type clnShim struct {
	n *Node
	c *clightning.ClightningClient
	f *fakeCln
}

func (s *clnShim) DecodePayreq(payreq string) (string, uint64, int64, error) { return s.c.DecodePayreq(payreq) }
func (s *clnShim) PayInvoice(payreq string) (string, error)                  { return s.c.PayInvoice(payreq) }
func (s *clnShim) GetPayreq(msatAmount uint64, preimage string, swapId string, memo string, invoiceType swap.InvoiceType, expirySeconds, expiryCltv uint64) (string, error) {
	return s.c.GetPayreq(msatAmount, preimage, swapId, memo, invoiceType, expirySeconds, expiryCltv)
}
func (s *clnShim) PayInvoiceViaChannel(payreq string, channel string) (string, error) {
	defer s.f.annotate(&lndAnn{fn: "PayInvoiceViaChannel"})()
	return s.c.PayInvoiceViaChannel(payreq, channel)
}
func (s *clnShim) AddPaymentCallback(f func(swapId string, invoiceType swap.InvoiceType)) {
	n := s.n
	s.c.AddPaymentCallback(func(swapId string, invoiceType swap.InvoiceType) {
		n.checkAlive()
		f(swapId, invoiceType)
	})
}
func (s *clnShim) AddPaymentNotifier(swapId string, payreq string, invoiceType swap.InvoiceType) {
	s.c.AddPaymentNotifier(swapId, payreq, invoiceType)
}
func (s *clnShim) RebalancePayment(payreq string, channel string, maxTotalCLTVDelta uint32) (string, error) {
	defer s.f.annotate(&lndAnn{fn: "RebalancePayment"})()
	return s.c.RebalancePayment(payreq, channel, maxTotalCLTVDelta)
}
func (s *clnShim) RecoverClaimPayment(payreq string) (string, error) { return s.c.RecoverClaimPayment(payreq) }
func (s *clnShim) CanSpend(amountMsat uint64) error                 { return s.c.CanSpend(amountMsat) }
func (s *clnShim) Implementation() string                           { return s.c.Implementation() }
func (s *clnShim) SpendableMsat(scid string) (uint64, error)        { return s.c.SpendableMsat(scid) }
func (s *clnShim) ReceivableMsat(scid string) (uint64, error)       { return s.c.ReceivableMsat(scid) }
func (s *clnShim) ProbePayment(scid string, amountMsat uint64) (bool, string, error) {
	return s.c.ProbePayment(scid, amountMsat)
}
func (s *clnShim) SendMessage(peerId string, message []byte, messageType int) error {
	return s.c.SendMessage(peerId, message, messageType)
}
func (s *clnShim) AddMessageHandler(f func(peerId string, msgType string, payload []byte) error) {
	s.c.AddMessageHandler(f)
}
func (s *clnShim) SetLabel(txID, address, label string) error { return s.c.SetLabel(txID, address, label) }
func (s *clnShim) CreateOpeningTransaction(p *swap.OpeningParams) (string, string, string, uint64, uint32, error) {
	defer s.f.annotate(&lndAnn{opening: p})()
	return s.c.CreateOpeningTransaction(p)
}
func (s *clnShim) CreatePreimageSpendingTransaction(p *swap.OpeningParams, c *swap.ClaimParams) (string, string, string, error) {
	return s.c.CreatePreimageSpendingTransaction(p, c)
}
func (s *clnShim) CreateCsvSpendingTransaction(p *swap.OpeningParams, c *swap.ClaimParams) (string, string, string, error) {
	return s.c.CreateCsvSpendingTransaction(p, c)
}
func (s *clnShim) CreateCoopSpendingTransaction(p *swap.OpeningParams, c *swap.ClaimParams, takerSigner swap.Signer) (string, string, string, error) {
	return s.c.CreateCoopSpendingTransaction(p, c, takerSigner)
}
func (s *clnShim) GetOutputScript(p *swap.OpeningParams) ([]byte, error) { return s.c.GetOutputScript(p) }
func (s *clnShim) NewAddress() (string, error)                           { return s.c.NewAddress() }
func (s *clnShim) GetRefundFee() (uint64, error)                         { return s.c.GetRefundFee() }
func (s *clnShim) GetFlatOpeningTXFee() (uint64, error)                  { return s.c.GetFlatOpeningTXFee() }
func (s *clnShim) GetAsset() string                                      { return s.c.GetAsset() }
func (s *clnShim) GetNetwork() string                                    { return s.c.GetNetwork() }
func (s *clnShim) GetOnchainBalance() (uint64, error)                    { return s.c.GetOnchainBalance() }

// bootCln builds the CLN side of a node: the real adapter over the simulated lightningd.
func (n *Node) bootCln(ctx context.Context) (*clnShim, error) {
	f := &fakeCln{n: n, ann: map[string]*lndAnn{}, funded: map[string]*clnPrepared{}, pays: map[string]*clnPay{}}
	n.cln = f
	c, err := clightning.NewSimClient(ctx, n.Pubkey, "v24.11", n.BtcOn, &chaincfg.RegressionNetParams)
	if err != nil {
		return nil, err
	}
	n.clnClient = c
	return &clnShim{n: n, c: c, f: f}, nil
}
