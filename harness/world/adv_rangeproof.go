package world

import (
	secp256k1 "github.com/vulpemventures/go-secp256k1-zkp"
)

// forgedRangeProof signs a range proof whose embedded message discloses
// another asset / blinding factor than the ones committed to.
func forgedRangeProof(amount uint64, nonce [32]byte, disclosedAsset, disclosedAbf []byte, vbf [32]byte, valueCommitment, assetCommitment, script []byte) ([]byte, error) {
	ctx, _ := secp256k1.ContextCreate(secp256k1.ContextBoth)
	defer secp256k1.ContextDestroy(ctx)
	commit, err := secp256k1.CommitmentParse(ctx, valueCommitment)
	if err != nil {
		return nil, err
	}
	gen, err := secp256k1.GeneratorParse(ctx, assetCommitment)
	if err != nil {
		return nil, err
	}
	message := append(append([]byte{}, disclosedAsset...), disclosedAbf...)
	return secp256k1.RangeProofSign(ctx, 1, commit, vbf, nonce, 0, 52, amount, message, script, gen)
}
