package world

import (
	"bytes"
	"encoding/hex"
	"errors"
	"fmt"

	"github.com/btcsuite/btcd/chaincfg/chainhash"
	"github.com/btcsuite/btcd/txscript"
	"github.com/btcsuite/btcd/wire"
)

func parseBtcTx(rawHex string) (*ChainTx, error) {
	raw, err := hex.DecodeString(rawHex)
	if err != nil {
		return nil, err
	}
	m := wire.NewMsgTx(2)
	if err := m.Deserialize(bytes.NewReader(raw)); err != nil {
		return nil, err
	}
	tx := &ChainTx{ID: m.TxHash().String(), Hex: rawHex, NOut: len(m.TxOut)}
	for _, o := range m.TxOut {
		tx.OutScripts = append(tx.OutScripts, o.PkScript)
	}
	for _, in := range m.TxIn {
		tx.Ins = append(tx.Ins, fmt.Sprintf("%s:%d", in.PreviousOutPoint.Hash.String(), in.PreviousOutPoint.Index))
	}
	return tx, nil
}

func classifyWitness(n int) string {
	switch n {
	case 5:
		return "preimage"
	case 4:
		return "coop"
	case 2:
		return "csv"
	}
	return fmt.Sprintf("other(%d)", n)
}

// relative lock (BIP68) for height-based locks: the spend can enter the
// mempool only if it could be mined in the next block.
func bip68ok(version int32, sequence uint32, confirmations uint32) error {
	if version < 2 || sequence&wire.SequenceLockTimeDisabled != 0 {
		return nil
	}
	if sequence&wire.SequenceLockTimeIsSeconds != 0 {
		return errors.New("non-BIP68-final (time-based lock not modelled)")
	}
	need := sequence & wire.SequenceLockTimeMask
	// output confirmed at H with c confirmations => tip = H+c-1; next block = H+c; need next-H >= need
	if confirmations < need {
		return fmt.Errorf("non-BIP68-final (have %d confirmations, need %d)", confirmations, need)
	}
	return nil
}

func (c *SimChain) verifySwapSpend(tx *ChainTx, so *SwapOutput) (string, error) {
	if c.Name != "btc" {
		return c.verifyLiquidSwapSpend(tx, so)
	}
	raw, _ := hex.DecodeString(tx.Hex)
	m := wire.NewMsgTx(2)
	if err := m.Deserialize(bytes.NewReader(raw)); err != nil {
		return "", err
	}
	idx := -1
	for i, in := range m.TxIn {
		if in.PreviousOutPoint.Hash.String() == so.TxID && in.PreviousOutPoint.Index == so.Vout {
			idx = i
		}
	}
	if idx < 0 {
		return "", errors.New("internal: swap input not found")
	}
	if err := verifyBtcInput(m, idx, so.PkScript, int64(so.Amount), c.Confirmations(so.TxID)); err != nil {
		return "", err
	}
	return classifyWitness(len(m.TxIn[idx].Witness)), nil
}

// verifyBtcInput is the acceptance rule of the simulated Bitcoin chain for one
// input: btcd's script engine with the standard flags, then BIP68 against the
// depth of the spent output.
func verifyBtcInput(m *wire.MsgTx, idx int, pkScript []byte, amount int64, confirmations uint32) error {
	fetcher := txscript.NewCannedPrevOutputFetcher(pkScript, amount)
	hashes := txscript.NewTxSigHashes(m, fetcher)
	vm, err := txscript.NewEngine(pkScript, m, idx, txscript.StandardVerifyFlags, nil, hashes, amount, fetcher)
	if err != nil {
		return fmt.Errorf("mandatory-script-verify-flag-failed (%v)", err)
	}
	if err := vm.Execute(); err != nil {
		return fmt.Errorf("mandatory-script-verify-flag-failed (%v)", err)
	}
	return bip68ok(m.Version, m.TxIn[idx].Sequence, confirmations)
}

func plainBtcSpend(txid string, vout uint32) string {
	h, err := chainhash.NewHashFromStr(txid)
	if err != nil {
		return ""
	}
	m := wire.NewMsgTx(2)
	m.AddTxIn(wire.NewTxIn(wire.NewOutPoint(h, vout), nil, [][]byte{{0x30}, {0x02}}))
	m.AddTxOut(wire.NewTxOut(1000, []byte{0x00, 0x14, 1, 2, 3, 4, 5, 6, 7, 8, 9, 10, 11, 12, 13, 14, 15, 16, 17, 18, 19, 20}))
	var buf bytes.Buffer
	m.Serialize(&buf)
	return hex.EncodeToString(buf.Bytes())
}
