package world

import (
	"encoding/json"
	"os"

	"github.com/elementsproject/peerswap/verifsim/rt"
)

// Plan is everything that decides a run. A run is a pure function of
// (Plan, code under test). The JSON form of a Plan is the replay file.
type Plan struct {
	Seed      uint64       `json:"seed"`
	SchedSeed uint64       `json:"sched_seed,omitempty"`
	SchedRate int          `json:"sched_rate,omitempty"`
	Perturb   []rt.Perturb `json:"perturb,omitempty"`
	SelectRot int          `json:"select_rot,omitempty"`
	MaxSteps  int          `json:"max_steps,omitempty"`

	Scn Scenario `json:"scn"`

	Ops     []Op        `json:"ops,omitempty"`     // operator / workload actions at virtual times
	Net     []NetFault  `json:"net,omitempty"`     // per-message faults
	Faults  []Fault     `json:"faults,omitempty"`  // service faults by (node, site, occurrence)
	Crashes []Crash     `json:"crashes,omitempty"` // crash points
	LN      []LNFault   `json:"ln,omitempty"`      // per-payment outcomes
	Chain   []ChainEv   `json:"chain,omitempty"`   // scripted chain events
	Adv     []AdvMove   `json:"adv,omitempty"`     // adversary script (injections)
	AdvCfg  *AdvCfg     `json:"adv_cfg,omitempty"` // the hostile counterparty's behaviour (when Scn.Kind[i]=="adv")
	Silence []SilenceAt `json:"silence,omitempty"` // peer goes silent after its k-th message

	Watch []WatchSpec `json:"watch,omitempty"` // component simulation of the chain watchers (C20)
	Comp  []CompOp    `json:"comp,omitempty"`  // component simulation scripts (policy C25, peersync C28, ...)
	Lab   *LabCfg     `json:"lab,omitempty"`   // script laboratory (C02): every key and preimage in the simulator's hands

	// Heal phase (liveness properties): faults stop, chain advances, restarts happen.
	Heal HealCfg `json:"heal"`
}

type Scenario struct {
	// Node kinds: "real" runs peerswap code; "adv" is the scripted adversary.
	Kind [2]string `json:"kind"`
	// LN back-end flavour per node: "cln" or "lnd" (affects retry semantics,
	// message delivery concurrency, scid spelling used by local RPC).
	Flavor [2]string `json:"flavor"`
	// LiquidBackend per node: "elementsd" (RPC watcher) or "lwk" (electrum watcher)
	LiquidBackend [2]string `json:"liquid_backend"`
	BitcoinOn     [2]bool   `json:"bitcoin_on"`
	LiquidOn      [2]bool   `json:"liquid_on"`

	Channels []ChannelCfg `json:"channels"`

	// Policy per node.
	AcceptAll    [2]bool   `json:"accept_all"`
	Allowlist    [2][]int  `json:"allowlist,omitempty"`  // node ids allowlisted
	Suspicious   [2][]int  `json:"suspicious,omitempty"` // node ids suspicious
	MinSwapMsat  [2]uint64 `json:"min_swap_msat"`
	SwapsAllowed [2]bool   `json:"swaps_allowed"`
	// PolicyFileStyle: 0 canonical; other values produce awkward-but-legal files (C25)
	PolicyFileStyle [2]int `json:"policy_file_style,omitempty"`

	// Premium rates (ppm) installed as global defaults per node: [btc in, btc out, lbtc in, lbtc out]; nil = built-in defaults
	PremiumPPM [2][]int64 `json:"premium_ppm,omitempty"`

	WalletSat [2]uint64 `json:"wallet_sat"`

	// Wallet tx layout knobs (per node): position of the swap output and decoys.
	Layout [2]LayoutCfg `json:"layout"`

	// Fee estimator answers (sat/kw for bitcoin; sat/kvB style for liquid) per node
	BtcFeePerKw   [2]int64 `json:"btc_fee_per_kw"`
	LiquidFeeRate [2]int64 `json:"liquid_fee_sat_per_kvb"`

	// Timing
	NetLatencyMs   int `json:"net_latency_ms"`
	LNLatencyMs    int `json:"ln_latency_ms"`
	BlockEverySec  int `json:"block_every_sec"`  // autopilot miner period for both chains (0 = off)
	LBlockEverySec int `json:"lblock_every_sec"` // liquid override (0 = same)

	StartHeightBTC  uint32 `json:"start_height_btc"`
	StartHeightLBTC uint32 `json:"start_height_lbtc"`

	DurationSec int `json:"duration_sec"` // fault phase length

	// PeerSync: real nodes also run the peer-sync gossip (real peersync.PeerSync)
	PeerSync bool `json:"peersync,omitempty"`

	// Component: "" = whole node; "watchers", "policy", "peersync" = one real
	// component alone against its simulated back-end (component simulations)
	Component string `json:"component,omitempty"`

	// Adapter per node: "" = Lightning and the Bitcoin wallet are stubbed at the swap-package
	// interfaces (tier 1); "lnd" = the real lnd adapter (lnd.Client, PaymentWatcher,
	// MessageListener, TxWatcher) over the simulated LND (tier 2; implies flavor lnd)
	// "cln" = the real clightning adapter over the simulated lightningd (tier 3)
	Adapter [2]string `json:"adapter,omitempty"`

	// RealLiquidWallet per node: the real wallet.ElementsRpcWallet over a simulated elementsd
	// (wallet.RpcClient is the seam) instead of the stand-in at wallet.Wallet; elementsd back-end only
	RealLiquidWallet [2]bool `json:"real_liquid_wallet,omitempty"`

	// RpcParkRate: per-mille of polling RPC reads that are scheduling points
	RpcParkRate int `json:"rpc_park_rate,omitempty"`
}

type ChannelCfg struct {
	Block, Tx, Out int    // scid components
	A, B           int    // node ids (A < B)
	BalA, BalB     uint64 // msat
}

type LayoutCfg struct {
	SwapIndex    int  `json:"swap_index"`               // desired index of the swap output among outputs (clamped)
	Change       bool `json:"change"`                   // add a change output
	Extra        int  `json:"extra"`                    // number of extra unrelated outputs
	DecoySameAmt bool `json:"decoy_same_amt,omitempty"` // an extra output with the same value (different script)
	DecoyLast    bool `json:"decoy_last,omitempty"`     // ... placed behind the swap output
	NestedInput  bool `json:"nested_input,omitempty"`   // tier 2/3: the wallet funds with a nested-segwit coin (final txid differs from the unsigned one)
	SpendChange  bool `json:"spend_change,omitempty"`   // wallet later spends its change output
	RandomPos    bool `json:"random_pos,omitempty"`     // the wallet daemon places the outputs it adds at a random position, anew for every funding (elementsd, lwk)
	FeeMult      int  `json:"fee_mult,omitempty"`       // tier 2/3: the funding costs this many times the usual fee (a wallet of many small coins)
}

// Op is an operator/workload action.
type Op struct {
	AtMs   int    `json:"at_ms"`
	Node   int    `json:"node"`
	Kind   string `json:"kind"` // swapout, swapin, policy-*, premium-*, restart, ...
	Chain  string `json:"chain,omitempty"`
	Chan   int    `json:"chan,omitempty"` // index into Scn.Channels
	Colon  bool   `json:"colon,omitempty"`
	Amount uint64 `json:"amount,omitempty"`
	Limit  int64  `json:"limit_ppm,omitempty"`
	Peer   int    `json:"peer,omitempty"`
	Arg    string `json:"arg,omitempty"`
	N      int64  `json:"n,omitempty"`
}

type NetFault struct {
	Idx     int    `json:"idx"`  // index of the message in global send order
	Kind    string `json:"kind"` // drop, dup, delay, junk
	DelayMs int    `json:"delay_ms,omitempty"`
}

type Fault struct {
	Node int    `json:"node"`
	Site string `json:"site"`
	Occ  int    `json:"occ"`  // 1-based occurrence of (node, site); 0 = every occurrence
	Kind string `json:"kind"` // err (error instead of effect), errafter (effect, then error), slow (answer after Ms), lag (gettxout: answer computed, delivered Ms later), reject26, stale, empty, behind, zero, huge
	Ms   int    `json:"ms,omitempty"`
	N    int    `json:"n,omitempty"` // number of consecutive occurrences affected (default 1)
	// FromMs/ToMs: if ToMs > 0 the fault applies to every occurrence in that
	// window of virtual time instead of by occurrence number.
	FromMs int `json:"from_ms,omitempty"`
	ToMs   int `json:"to_ms,omitempty"`
}

type Crash struct {
	Node      int `json:"node"`
	AtOp      int `json:"at_op"`      // crash before the node's AtOp-th sim operation
	RestartMs int `json:"restart_ms"` // restart delay (virtual)
}

type LNFault struct {
	Idx     int    `json:"idx"`  // index of the payment attempt in global order
	Kind    string `json:"kind"` // fail, errpending-settle, errpending-fail, hold
	DelayMs int    `json:"delay_ms,omitempty"`
}

type ChainEv struct {
	AtMs  int    `json:"at_ms"`
	Chain string `json:"chain"`
	Kind  string `json:"kind"` // mine, reorg, reorg-delay, reorg-hold, stall, reorg-deep-ifdown
	N     int    `json:"n"`
	// Node: for reorg-deep-ifdown, the node that must be down for the event to happen
	Node int `json:"node,omitempty"`
}

type AdvMove struct {
	// Trigger: "at" (AtMs) or "on" (message kind received / state)
	AtMs int    `json:"at_ms,omitempty"`
	On   string `json:"on,omitempty"`
	Kind string `json:"kind"`
	Arg  string `json:"arg,omitempty"`
	N    int64  `json:"n,omitempty"`
	M    int64  `json:"m,omitempty"`
}

type SilenceAt struct {
	Node  int `json:"node"`  // the node that goes silent (its outgoing messages are dropped)
	After int `json:"after"` // after this many messages sent by it
}

type HealCfg struct {
	On       bool `json:"on"`
	Restarts int  `json:"restarts,omitempty"`
	Blocks   int  `json:"blocks,omitempty"` // extra blocks to mine (bursts)
	Seconds  int  `json:"seconds,omitempty"`
	// Canary: at the very end register a fresh transaction with every real node's
	// own chain watchers and require a report (C18: notification handling alive)
	Canary bool `json:"canary,omitempty"`
}

func (p *Plan) JSON() []byte {
	b, _ := json.MarshalIndent(p, "", " ")
	return b
}

func LoadPlan(path string) (*Plan, error) {
	b, err := os.ReadFile(path)
	if err != nil {
		return nil, err
	}
	// replay files wrap the plan: {"plan": {...}, ...}
	var wrap struct {
		Plan *Plan `json:"plan"`
	}
	if err := json.Unmarshal(b, &wrap); err == nil && wrap.Plan != nil {
		return wrap.Plan, nil
	}
	p := &Plan{}
	if err := json.Unmarshal(b, p); err != nil {
		return nil, err
	}
	return p, nil
}

// DefaultScenario is the happy-path world: two real nodes, one channel.
func DefaultScenario() Scenario {
	return Scenario{
		Kind:            [2]string{"real", "real"},
		Flavor:          [2]string{"cln", "cln"},
		LiquidBackend:   [2]string{"elementsd", "elementsd"},
		BitcoinOn:       [2]bool{true, true},
		LiquidOn:        [2]bool{true, true},
		Channels:        []ChannelCfg{{Block: 100, Tx: 1, Out: 0, A: 0, B: 1, BalA: 5_000_000_000, BalB: 5_000_000_000}},
		AcceptAll:       [2]bool{true, true},
		MinSwapMsat:     [2]uint64{100_000_000, 100_000_000},
		SwapsAllowed:    [2]bool{true, true},
		WalletSat:       [2]uint64{50_000_000, 50_000_000},
		BtcFeePerKw:     [2]int64{2500, 2500},
		LiquidFeeRate:   [2]int64{100, 100},
		NetLatencyMs:    50,
		LNLatencyMs:     200,
		BlockEverySec:   20,
		StartHeightBTC:  800_000,
		StartHeightLBTC: 3_000_000,
		DurationSec:     900,
	}
}
