package world

import (
	"bytes"
	"encoding/hex"
	"fmt"
	"strings"
	"time"

	"github.com/btcsuite/btcd/wire"
	"github.com/elementsproject/peerswap/swap"
	"github.com/vulpemventures/go-elements/elementsutil"
	"github.com/vulpemventures/go-elements/transaction"
)

// watchShim is a pass-through around a node's real chain watcher. It exists
// for the canary of C18 ("handling chain notifications never blocks forever"):
// at the end of a run the harness registers a fresh transaction with the
// node's own watcher and mines a few blocks; a watcher whose notification
// handling is still alive reports it. Reports for canary ids are consumed
// here, everything else goes to the swap service untouched.
type watchShim struct {
	n     *Node
	chain string
	inner swap.TxWatcher
}

const canaryPrefix = "ca9a7100"

func (s *watchShim) AddWaitForConfirmationTx(swapID, txID string, vout, startingHeight, paymentWindow uint32, scriptpubkey []byte) {
	s.inner.AddWaitForConfirmationTx(swapID, txID, vout, startingHeight, paymentWindow, scriptpubkey)
}

func (s *watchShim) AddWaitForCsvTx(swapID, txID string, vout, startingHeight, csv uint32, scriptpubkey []byte) {
	s.inner.AddWaitForCsvTx(swapID, txID, vout, startingHeight, csv, scriptpubkey)
}

func (s *watchShim) AddConfirmationCallback(f func(swapId string, txHex string, err error) error) {
	s.inner.AddConfirmationCallback(func(swapId string, txHex string, err error) error {
		if strings.HasPrefix(swapId, canaryPrefix) {
			es := ""
			if err != nil {
				es = err.Error()
			}
			s.n.w.Observe(&Obs{Node: s.n.ID, Inc: s.n.inc, Kind: "canary.conf", Str: swapId + "|" + s.chain + "|" + es})
			return nil
		}
		return f(swapId, txHex, err)
	})
}

func (s *watchShim) AddCsvCallback(f func(swapId string) error) {
	s.inner.AddCsvCallback(func(swapId string) error {
		if strings.HasPrefix(swapId, canaryPrefix) {
			s.n.w.Observe(&Obs{Node: s.n.ID, Inc: s.n.inc, Kind: "canary.csv", Str: swapId + "|" + s.chain + "|"})
			return nil
		}
		return f(swapId)
	})
}

func (s *watchShim) GetBlockHeight() (uint32, error) { return s.inner.GetBlockHeight() }
func (s *watchShim) StartWatchingTxs() error         { return s.inner.StartWatchingTxs() }

// plainTx builds a transaction with one 100000-sat output to script on the given chain.
func (w *World) plainTx(chain string, seed uint64, script []byte) (rawHex, txid string) {
	if chain == "btc" {
		m := wire.NewMsgTx(2)
		m.AddTxIn(wire.NewTxIn(wire.NewOutPoint(ptrHash(randHashSeeded(seed)), 0), nil, [][]byte{{1}}))
		m.AddTxOut(wire.NewTxOut(100000, script))
		var buf bytes.Buffer
		m.Serialize(&buf)
		return hex.EncodeToString(buf.Bytes()), m.TxHash().String()
	}
	t := transaction.NewTx(2)
	h := randHashSeeded(seed)
	t.AddInput(transaction.NewTxInput(h[:], 0))
	asset := append([]byte{0x01}, bytes.Repeat([]byte{0x11}, 32)...)
	v, _ := elementsutil.ValueToBytes(100000)
	t.AddOutput(transaction.NewTxOutput(asset, v, script))
	v2, _ := elementsutil.ValueToBytes(300)
	t.AddOutput(transaction.NewTxOutput(asset, v2, []byte{}))
	rawHex, _ = t.ToHex()
	return rawHex, t.TxHash().String()
}

type canary struct {
	node  int
	chain string
	kind  string
	id    string
}

// canaryPhase: faults have stopped and the node has been left running. A new
// transaction is registered with each real node's own watchers (confirmation
// and CSV with a tiny csv value), blocks are mined one at a time with idle
// time in between, and every registration must be reported. A watcher whose
// block/notification handling got stuck earlier in the run cannot do that.
func (w *World) canaryPhase() {
	w.healing = true
	w.Sim.DisableCrashPoints() // (also when there was no heal phase before)
	var cs []canary
	k := 0
	for _, n := range w.Nodes {
		if !n.Real || !n.Up || n.Svc == nil || w.Plan.Scn.Component != "" {
			continue
		}
		for _, cw := range []struct {
			chain string
			tw    swap.TxWatcher
			c     *SimChain
		}{{"btc", n.BtcW, w.BTC}, {"lbtc", n.LbtcW, w.LBTC}} {
			if cw.tw == nil {
				continue
			}
			kinds := []string{"conf", "csv"}
			if cw.chain == "btc" && n.lnd != nil {
				// lnd.TxWatcher waits for its own fixed csv (144 confirmations, then blocks up
				// to 1008), whatever the registration says: only the confirmation canary applies
				kinds = []string{"conf"}
			}
			for _, kind := range kinds {
				k++
				id := fmt.Sprintf("%s%02d%s", canaryPrefix, k, strings.Repeat("0", 54))
				script := append([]byte{0x00, 0x20}, sha256sum(fmt.Sprintf("canary-%d-%d", w.Plan.Seed, k))...)
				rawHex, txid := w.plainTx(cw.chain, w.Plan.Seed+uint64(7000+k), script)
				if _, err := cw.c.Broadcast(2, rawHex, "canary"); err != nil {
					w.Infraf("canary tx rejected: %v", err)
					continue
				}
				start := cw.c.Height()
				tw, kind2, n2, chain := cw.tw, kind, n, cw.chain
				w.Sim.Spawn(n.ID, "canary:"+kind, func() {
					n2.checkAlive()
					if kind2 == "conf" {
						tw.AddWaitForConfirmationTx(id, txid, 0, start, 1000, script)
					} else {
						tw.AddWaitForCsvTx(id, txid, 0, start, 4, script)
					}
					w.Observe(&Obs{Node: n2.ID, Inc: n2.inc, Kind: "canary.registered", Str: id + "|" + chain + "|" + kind2})
				})
				cs = append(cs, canary{node: n.ID, chain: cw.chain, kind: kind, id: id})
			}
		}
	}
	if len(cs) == 0 {
		return
	}
	w.Sim.Idle(5 * time.Second)
	for i := 0; i < 8; i++ {
		w.BTC.Mine(1)
		w.LBTC.Mine(1)
		w.Sim.Idle(25 * time.Second)
	}
	w.Sim.Idle(30 * time.Second)
	got := map[string]bool{}
	registered := map[string]bool{}
	for _, o := range w.Obs {
		switch o.Kind {
		case "canary.conf", "canary.csv":
			f := strings.SplitN(o.Str, "|", 3)
			if o.Kind == "canary.conf" && len(f) == 3 && f[2] != "" {
				continue // a failure report is not what a fresh registration deserves; judged below as missing
			}
			got[f[0]] = true
		case "canary.registered":
			registered[strings.SplitN(o.Str, "|", 2)[0]] = true
		}
	}
	for _, c := range cs {
		n := w.Nodes[c.node]
		if !n.Up || !registered[c.id] {
			continue
		}
		w.Probe("C18:canary-checked")
		if !got[c.id] {
			backend := "rpc"
			if c.chain == "lbtc" && w.Plan.Scn.LiquidBackend[c.node] == "lwk" {
				backend = "electrum"
			}
			if c.chain == "btc" && w.Plan.Scn.Adapter[c.node] == "lnd" {
				backend = "lnd"
			}
			w.Violate("C18", "chain-notifications-no-longer-handled:"+backend+":"+c.kind, "node %d: a transaction registered with its %s %s watcher at the end of the run (%s watch) was never reported although 8 blocks were mined afterwards with the node idle: the watcher's block/notification handling is stuck", c.node, c.chain, backend, c.kind)
		}
	}
}
