package world

import (
	"crypto/rand"
	"fmt"
	"io"
	"sort"
	"strings"
	"sync"
	"testing"
	"testing/synctest"
	"time"

	"github.com/elementsproject/peerswap/swap"
	"github.com/elementsproject/peerswap/verifsim/rt"
)

// Result is what a run produced.
type Result struct {
	Violations []Violation    `json:"violations"`
	Infra      []string       `json:"infra,omitempty"`
	LogHash    string         `json:"log_hash"`
	Log        []string       `json:"-"`
	Steps      int            `json:"steps"`
	SimTime    time.Duration  `json:"sim_time"`
	Probes     map[string]int `json:"probes"`
	Sites      map[string]int `json:"sites"`
	NodeOps    [2]int         `json:"node_ops"`
	End        string         `json:"end"`
	Swaps      []SwapSummary  `json:"swaps"`
	NObs       int            `json:"n_obs"`
	States     []string       `json:"states"` // distinct (node role, state) pairs persisted
	NodeLogs   [2][]string    `json:"-"`
	Msgs       int            `json:"msgs"`
}

type SwapSummary struct {
	Node  int    `json:"node"`
	ID    string `json:"id"`
	Type  string `json:"type"`
	Role  string `json:"role"`
	State string `json:"state"`
}

var runMu sync.Mutex

// Run executes one plan inside a fresh synctest bubble.
func Run(t *testing.T, p *Plan, mk func() []Monitor) (res *Result) {
	runMu.Lock()
	defer runMu.Unlock()
	oldReader := rand.Reader
	rand.Reader = rt.Reader{}
	defer func() { rand.Reader = oldReader }()
	res = &Result{}
	func() {
		defer func() {
			if r := recover(); r != nil {
				msg := fmt.Sprint(r)
				// goroutines blocked forever on raw channels of dead incarnations
				if strings.Contains(msg, "blocked goroutines remain") || strings.Contains(msg, "deadlock: main bubble goroutine has exited") {
					return
				}
				res.Infra = append(res.Infra, "panic outside bubble: "+msg)
			}
		}()
		synctest.Test(t, func(t *testing.T) {
			runInBubble(p, mk, res)
		})
	}()
	collectRaces(res)
	return res
}

var _ io.Reader = rt.Reader{}

func runInBubble(p *Plan, mk func() []Monitor, res *Result) {
	var monitors []Monitor
	if mk != nil {
		monitors = mk()
	}
	w, err := New(p, monitors)
	if err != nil {
		res.Infra = append(res.Infra, err.Error())
		return
	}
	defer w.Cleanup()
	defer func() {
		if r := recover(); r != nil {
			res.Infra = append(res.Infra, fmt.Sprintf("panic in scheduler context: %v", r))
			w.collect(res)
		}
	}()
	scn := &p.Scn
	for _, n := range w.Nodes {
		if n.Kind == "adv" {
			w.Adv = newAdversary(w, n.ID)
		}
	}
	for _, n := range w.Nodes {
		if n.ID < 2 {
			n.Start()
		}
	}
	bp := time.Duration(scn.BlockEverySec) * time.Second
	w.BTC.StartMiner(bp)
	lp := bp
	if scn.LBlockEverySec > 0 {
		lp = time.Duration(scn.LBlockEverySec) * time.Second
	}
	w.LBTC.StartMiner(lp)
	for i := range p.Ops {
		op := p.Ops[i]
		w.Sim.After(ms(op.AtMs), "op", fmt.Sprintf("op#%d %s n%d", i, op.Kind, op.Node), func() { w.doOp(i, &op) })
	}
	for i := range p.Chain {
		ev := p.Chain[i]
		w.Sim.After(ms(ev.AtMs), "chain", fmt.Sprintf("chainev#%d %s %s", i, ev.Chain, ev.Kind), func() { w.doChainEv(&ev) })
	}
	if w.Adv == nil {
		w.Adv = newAdversary(w, 2)
	}
	w.scheduleInjections()
	w.scheduleWatches()
	w.scheduleComp()
	w.Adv.start()
	dur := time.Duration(scn.DurationSec) * time.Second
	if dur == 0 {
		dur = 15 * time.Minute
	}
	lastCheck := time.Duration(-1)
	opsDone := func() bool {
		for _, op := range p.Ops {
			if ms(op.AtMs) >= w.Sim.Now() {
				return false
			}
		}
		return true
	}
	quiet := func() bool {
		now := w.Sim.Now()
		if now-lastCheck < 2*time.Second {
			return false
		}
		lastCheck = now
		if !opsDone() || now < 5*time.Second || now < ms(w.lastScriptedMs())+5*time.Second {
			return false
		}
		return w.AllTerminal() && w.OpsSettled()
	}
	res.End = w.Sim.RunUntil(dur, quiet)
	if p.Heal.On {
		w.heal()
		res.End += "+heal"
	}
	if p.Heal.Canary {
		w.canaryPhase()
		res.End += "+canary"
	}
	for _, m := range w.Monitors {
		m.Final(w)
	}
	if w.Sim.Deadlock != nil {
		w.Probe("deadlock-cycle")
	}
	w.collect(res)
	w.Sim.Stop()
}

func (w *World) collect(res *Result) {
	res.Violations = w.Violations
	res.Infra = append(res.Infra, w.Infra...)
	res.Log, res.LogHash = w.Sim.Log()
	res.Steps = w.Sim.Steps()
	res.SimTime = w.Sim.Now()
	res.Probes = w.Probes
	res.Sites = w.SiteCounts()
	res.NodeOps = [2]int{w.Sim.NodeOps(0), w.Sim.NodeOps(1)}
	res.NObs = len(w.Obs)
	res.NodeLogs = w.NodeLogs
	st := map[string]bool{}
	for _, o := range w.Obs {
		if o.Kind == "store.write" && o.Store != nil {
			st[fmt.Sprintf("n%d:%s", o.Node, o.Store.State)] = true
		}
		if o.Kind == "send" {
			res.Msgs++
		}
	}
	for k := range st {
		res.States = append(res.States, k)
	}
	sort.Strings(res.States)
	for _, n := range w.Nodes {
		for _, s := range n.Swaps() {
			res.Swaps = append(res.Swaps, SwapSummary{Node: n.ID, ID: s.SwapId.String(), Type: s.Type.String(), Role: s.Role.String(), State: string(s.Current)})
		}
	}
}

// AllTerminal reports whether every persisted swap of every running real
// node is finished (and every real node is up).
func (w *World) AllTerminal() bool {
	for _, n := range w.Nodes {
		if !n.Real {
			continue
		}
		if !n.Up || !n.Recovered {
			if n.BootErr != "" {
				continue
			}
			return false
		}
		for _, s := range n.Swaps() {
			if !s.IsFinished() {
				return false
			}
		}
	}
	return true
}

// OpsSettled: every operator call has returned.
func (w *World) OpsSettled() bool { return w.opsPending == 0 }

func (w *World) doChainEv(ev *ChainEv) {
	c := w.BTC
	if ev.Chain == "lbtc" {
		c = w.LBTC
	}
	switch ev.Kind {
	case "mine":
		c.Mine(ev.N)
	case "reorg":
		c.Reorg(ev.N, false)
	case "reorg-delay":
		c.Reorg(ev.N, true)
	case "reorg-hold":
		c.ReorgHold(ev.N)
	case "reorg-deep-ifdown":
		// A reorganisation deeper than the confirmation requirement. The model assumption
		// "N confirmations are final" is kept for running nodes; what is explored here is
		// whether a node that was down during such an event looks at the chain again when
		// it comes back, or trusts what it saw before it stopped.
		if n := w.Nodes[ev.Node]; n.Up || n.db != nil {
			w.Probe("chain:deep-reorg-skipped-node-up")
			return
		}
		w.Probe("chain:deep-reorg-while-down")
		c.ReorgHold(ev.N)
	case "stall":
		c.SetStalled(ev.N != 0)
	}
}

// doOp performs an operator action (scheduler context: spawns a task).
func (w *World) doOp(i int, op *Op) {
	n := w.Nodes[op.Node]
	if w.doExtOp(i, op) {
		return
	}
	switch op.Kind {
	case "crash":
		n.Crash(int(op.N))
		return
	case "partition":
		w.Net.Down = op.N != 0
		return
	}
	if !n.Real || !n.Up || n.Svc == nil {
		w.Observe(&Obs{Node: op.Node, Kind: "op.skipped", Str: op.Kind, Num: int64(i)})
		return
	}
	svc := n.Svc
	w.opsPending++
	w.Sim.Spawn(n.ID, "op:"+op.Kind, func() {
		done := false
		defer func() {
			if !done {
				// task died (crash) before returning
				w.opsPending--
			}
		}()
		var err error
		var id string
		w.Observe(&Obs{Node: n.ID, Inc: n.inc, Kind: "op.start", Str: op.Kind, Num: int64(i)})
		switch op.Kind {
		case "swapout", "swapin":
			ch := w.Plan.Scn.Channels[op.Chan%len(w.Plan.Scn.Channels)]
			sep := "x"
			if op.Colon {
				sep = ":"
			}
			scid := fmt.Sprintf("%d%s%d%s%d", ch.Block, sep, ch.Tx, sep, ch.Out)
			peer := ch.A
			if peer == n.ID {
				peer = ch.B
			}
			if op.Peer != 0 || op.Arg == "peer" {
				peer = op.Peer
			}
			chain := op.Chain
			if chain == "" {
				chain = "btc"
			}
			var sm *swap.SwapStateMachine
			rt.Yield("rpc")
			if op.Kind == "swapout" {
				sm, err = svc.SwapOut(w.Nodes[peer].Pubkey, chain, scid, n.Pubkey, op.Amount, op.Limit)
			} else {
				sm, err = svc.SwapIn(w.Nodes[peer].Pubkey, chain, scid, n.Pubkey, op.Amount, op.Limit)
			}
			if sm != nil {
				id = sm.SwapId.String()
			}
		default:
			err = w.doPolicyOp(n, op)
		}
		done = true
		w.opsPending--
		es := ""
		if err != nil {
			es = err.Error()
		}
		w.Observe(&Obs{Node: n.ID, Inc: n.inc, Kind: "op.result", Str: op.Kind + "|" + id + "|" + es, Num: int64(i)})
	})
}

// heal: faults stop, crashed nodes restart, the chains advance past every
// deadline in bursts, the node is restarted a few times; then things settle.
func (w *World) heal() {
	w.healing = true
	// faults stop: that includes crash points the nodes did not reach during the fault phase
	// (a node that did little would otherwise be crashed by its K-th operation somewhere in
	// the heal or canary phase, taking the canary's registrations with it)
	w.Sim.DisableCrashPoints()
	w.Net.Down = false
	h := w.Plan.Heal
	for _, n := range w.Nodes {
		if n.Real && !n.Up && n.db == nil && n.BootErr == "" {
			n.Start()
		}
	}
	w.Sim.Idle(30 * time.Second)
	blocks := h.Blocks
	if blocks == 0 {
		blocks = 1200
	}
	restarts := h.Restarts
	burst := 150
	done := 0
	nextRestart := blocks / (restarts + 1)
	rdone := 0
	for done < blocks {
		w.BTC.Mine(burst)
		w.LBTC.Mine(burst * 10) // liquid has one-minute blocks
		done += burst
		w.Sim.Idle(40 * time.Second)
		if rdone < restarts && done >= nextRestart*(rdone+1) {
			rdone++
			for _, n := range w.Nodes {
				if n.Real && n.Up {
					w.Probe("heal:restart")
					n.Crash(2000)
				}
			}
			w.Sim.Idle(60 * time.Second)
		}
		if w.AllTerminal() && rdone >= restarts {
			break
		}
	}
	// "the chains advance past every deadline" includes the CSV of openings that were broadcast
	// late (by a recovery during this phase): keep mining while a real node's unspent swap
	// output is confirmed but still short of its CSV (bounded)
	for round := 0; round < 12 && !w.AllTerminal(); round++ {
		short := false
		for _, c := range []*SimChain{w.BTC, w.LBTC} {
			for _, k := range rt.SortedKeys(c.Swaps) {
				so := c.Swaps[k]
				if so.SpentBy == "" && so.Owner >= 0 && so.Owner < len(w.Nodes) && w.Nodes[so.Owner].Real {
					if conf := c.Confirmations(so.TxID); conf > 0 && conf < so.CSV+5 {
						short = true
					}
				}
			}
		}
		if !short {
			break
		}
		w.Probe("heal:extended-for-late-opening")
		w.BTC.Mine(burst)
		w.LBTC.Mine(burst * 10)
		w.Sim.Idle(40 * time.Second)
	}
	secs := h.Seconds
	if secs == 0 {
		secs = 900
	}
	w.Sim.RunUntil(w.Sim.Now()+time.Duration(secs)*time.Second, func() bool { return w.AllTerminal() })
	w.Sim.Idle(5 * time.Second)
}
