package world

import (
	"context"
	"crypto/sha256"
	"encoding/binary"
	"encoding/hex"
	"errors"
	"fmt"

	"github.com/btcsuite/btcd/btcec/v2"
	goelectrum "github.com/checksum0/go-electrum/electrum"
	"github.com/elementsproject/peerswap/lwk"
	"github.com/elementsproject/peerswap/onchain"
	"github.com/elementsproject/peerswap/swap"
	"github.com/elementsproject/peerswap/txwatcher"
	"github.com/elementsproject/peerswap/verifsim/rt"
	"github.com/vulpemventures/go-elements/address"
	"github.com/vulpemventures/go-elements/confidential"
	"github.com/vulpemventures/go-elements/elementsutil"
	"github.com/vulpemventures/go-elements/network"
	"github.com/vulpemventures/go-elements/payment"
	"github.com/vulpemventures/go-elements/transaction"
)

// SimLiquidWallet implements wallet.Wallet (what ElementsRpcWallet and
// LWKRpcWallet implement) on the simulated Liquid chain. It builds real
// confidential transactions.
type SimLiquidWallet struct {
	n        *Node
	Balance  uint64
	addrSeq  int
	Scripts  map[string]bool   // output scripts of addresses handed out
	BlindKey map[string][]byte // script hex -> blinding private key
	Openings []string
}

func newSimLiquidWallet(n *Node) *SimLiquidWallet {
	return &SimLiquidWallet{n: n, Balance: n.w.Plan.Scn.WalletSat[n.ID], Scripts: map[string]bool{}, BlindKey: map[string][]byte{}}
}

func (l *SimLiquidWallet) key(tag string, i int) *btcec.PrivateKey {
	h := sha256.Sum256([]byte(fmt.Sprintf("verifsim-lwallet-%s-%d-%d", tag, l.n.ID, i)))
	k, _ := btcec.PrivKeyFromBytes(h[:])
	return k
}

func (l *SimLiquidWallet) newAddr() (string, []byte, error) {
	l.addrSeq++
	k := l.key("spend", l.addrSeq)
	bk := l.key("blind", l.addrSeq)
	p := payment.FromPublicKey(k.PubKey(), &network.Regtest, bk.PubKey())
	addr, err := p.ConfidentialWitnessPubKeyHash()
	if err != nil {
		return "", nil, err
	}
	script, err := address.ToOutputScript(addr)
	if err != nil {
		return "", nil, err
	}
	l.Scripts[hex.EncodeToString(script)] = true
	l.BlindKey[hex.EncodeToString(script)] = bk.Serialize()
	return addr, script, nil
}

// foreignAddr: an address of a wallet that is not this node's swap wallet (not in its book).
func (l *SimLiquidWallet) foreignAddr() (string, error) {
	l.addrSeq++
	p := payment.FromPublicKey(l.key("default-wallet-spend", l.addrSeq).PubKey(), &network.Regtest, l.key("default-wallet-blind", l.addrSeq).PubKey())
	return p.ConfidentialWitnessPubKeyHash()
}

func (l *SimLiquidWallet) GetAddress() (string, error) {
	f := l.n.op("lwallet.newaddr")
	if f != nil && f.Kind == "err" {
		return "", errors.New("wallet rpc unavailable")
	}
	a, _, err := l.newAddr()
	return a, err
}

func (l *SimLiquidWallet) SendToAddress(string, uint64) (string, error) {
	return "", errors.New("not used by swaps")
}

func (l *SimLiquidWallet) GetBalance() (uint64, error) {
	f := l.n.op("lwallet.balance")
	if f != nil && f.Kind == "err" {
		return 0, errors.New("wallet rpc unavailable")
	}
	return l.Balance, nil
}

func rand32() []byte {
	b := make([]byte, 32)
	for i := 0; i < 32; i += 8 {
		binary.LittleEndian.PutUint64(b[i:], rt.RandUint64())
	}
	b[0] &= 0x7f // keep scalars below the group order
	return b
}

// BlindedOutput builds a confidential output of `value` units of `asset`
// (32 bytes, internal order) to script, blinded for blindPub.
func BlindedOutput(value uint64, asset []byte, script []byte, blindPub []byte) (*transaction.TxOutput, error) {
	abf := rand32()
	vbf := rand32()
	ac, err := confidential.AssetCommitment(asset, abf)
	if err != nil {
		return nil, err
	}
	vc, err := confidential.ValueCommitment(value, ac, vbf)
	if err != nil {
		return nil, err
	}
	ephBytes := rand32()
	eph, _ := btcec.PrivKeyFromBytes(ephBytes)
	nonce, err := confidential.NonceHash(blindPub, eph.Serialize())
	if err != nil {
		return nil, err
	}
	var vbfa [32]byte
	copy(vbfa[:], vbf)
	rp, err := confidential.RangeProof(confidential.RangeProofArgs{
		Value: value, Nonce: nonce, Asset: asset, AssetBlindingFactor: abf, ValueBlindFactor: vbfa,
		ValueCommit: vc, ScriptPubkey: script, Exp: 0, MinBits: 52,
	})
	if err != nil {
		return nil, err
	}
	return &transaction.TxOutput{Asset: ac, Value: vc, Script: script, Nonce: eph.PubKey().SerializeCompressed(), RangeProof: rp}, nil
}

func (l *SimLiquidWallet) CreateAndBroadcastTransaction(p *swap.OpeningParams, asset []byte) (string, string, uint64, error) {
	n := l.n
	f := n.op("lwallet.open")
	if f != nil && f.Kind == "err" {
		return "", "", 0, errors.New("wallet rpc: fundrawtransaction failed")
	}
	fee, err := l.feeFor(int64(onchain.EstimatedOpeningConfidentialTxSizeBytes / 4))
	if err != nil {
		return "", "", 0, err
	}
	txid, rawHex, err := l.fundAndBroadcast(p.OpeningAddress, p.Amount, asset, fee, p, f)
	if err != nil {
		return "", "", 0, err
	}
	if f != nil && f.Kind == "errafter" {
		// e.g. LWK: broadcast succeeded, fetching the raw transaction afterwards failed
		return "", "", 0, errors.New("wallet rpc: failed to fetch transaction after broadcast")
	}
	return txid, rawHex, fee, nil
}

// fundAndBroadcast is what a Liquid wallet daemon does with "send amount to this confidential
// address": one input, the plan's change / extra outputs, a blinded output to the address, the
// fee output; broadcast; the swap output is registered as ground truth (p says which swap the
// call belongs to, the output itself is what addr / amount said).
func (l *SimLiquidWallet) fundAndBroadcast(addr string, amount uint64, asset []byte, fee uint64, p *swap.OpeningParams, f *Fault) (string, string, error) {
	n := l.n
	w := n.w
	script, err := address.ToOutputScript(addr)
	if err != nil {
		return "", "", err
	}
	ca, err := address.FromConfidential(addr)
	if err != nil {
		return "", "", err
	}
	if l.Balance < amount+fee {
		return "", "", errors.New("Insufficient funds")
	}
	swapOut, err := BlindedOutput(amount, asset[1:], script, ca.BlindingKey)
	if err != nil {
		return "", "", err
	}
	lay := w.Plan.Scn.Layout[n.ID]
	tx := transaction.NewTx(2)
	ph := randHash()
	tx.AddInput(transaction.NewTxInput(ph[:], 0))
	var outs []*transaction.TxOutput
	if lay.Change {
		_, cs, _ := l.newAddr()
		v, _ := elementsutil.ValueToBytes(l.Balance - amount - fee)
		outs = append(outs, transaction.NewTxOutput(asset, v, cs))
	}
	for i := 0; i < lay.Extra; i++ {
		_, es, _ := l.newAddr()
		v, _ := elementsutil.ValueToBytes(uint64(1000 + i))
		outs = append(outs, transaction.NewTxOutput(asset, v, es))
	}
	idx := swapIndexFor(lay, len(outs))
	outs = append(outs[:idx], append([]*transaction.TxOutput{swapOut}, outs[idx:]...)...)
	fv, _ := elementsutil.ValueToBytes(fee)
	outs = append(outs, transaction.NewTxOutput(asset, fv, []byte{}))
	for _, o := range outs {
		tx.AddOutput(o)
	}
	if idx != 0 {
		w.Probe("layout:swap-output-not-first")
	}
	rawHex, err := tx.ToHex()
	if err != nil {
		return "", "", err
	}
	txid, err := w.LBTC.Broadcast(n.ID, rawHex, "opening")
	if err != nil {
		return "", "", err
	}
	so := &SwapOutput{TxID: txid, Vout: uint32(idx), Owner: n.ID, Amount: amount, PkScript: script, CSV: 60, ValueCommitment: swapOut.Value, AssetOK: true}
	if p != nil {
		redeem, _ := onchain.ParamsToTxScript(p, p.CSV)
		so.Script, so.CSV = redeem, p.CSV
		so.TakerPub, so.MakerPub, so.PayHash, so.BlindPriv = p.TakerPubkey, p.MakerPubkey, p.ClaimPaymentHash, p.BlindingKey.Serialize()
	}
	w.LBTC.RegisterSwap(so)
	l.Balance -= amount + fee
	l.Openings = append(l.Openings, txid)
	if lay.Change && lay.SpendChange && idx != 0 {
		w.Sim.After(ms(45000), "wallet", "spend-change", func() { w.LBTC.SpendPlain(n.ID, txid, 0) })
	}
	w.Observe(&Obs{Node: n.ID, Inc: n.inc, Kind: "wallet.opening", Str: txid, Num: int64(idx), Tx: &TxObs{Chain: "lbtc", TxID: txid, Hex: rawHex, Kind: "opening", Err: ackLost(f)}})
	return txid, rawHex, nil
}

func (l *SimLiquidWallet) SendRawTx(rawTx string) (string, error) {
	n := l.n
	f := n.op("lwallet.sendraw")
	if f != nil && f.Kind == "err" {
		return "", errors.New("wallet rpc unavailable")
	}
	txid, err := n.w.LBTC.Broadcast(n.ID, rawTx, "spend")
	if err != nil {
		return "", err
	}
	if f != nil && f.Kind == "errafter" {
		return "", errors.New("wallet rpc timeout")
	}
	return txid, nil
}

func (l *SimLiquidWallet) feeFor(txSize int64) (uint64, error) {
	rate := l.n.w.Plan.Scn.LiquidFeeRate[l.n.ID] // sat per kvB
	return uint64(rate * txSize / 1000), nil
}

func (l *SimLiquidWallet) GetFee(txSize int64) (uint64, error) {
	f := l.n.lightOp("lwallet.fee")
	if f != nil {
		switch f.Kind {
		case "err":
			return 0, errors.New("error getting fee rate")
		case "zero":
			return 0, nil
		}
	}
	return l.feeFor(txSize)
}

func (l *SimLiquidWallet) SetLabel(txID, address, label string) error {
	f := l.n.op("lwallet.label")
	if f != nil && f.Kind == "err" {
		return errors.New("wallet rpc: label failed")
	}
	return nil
}

func (l *SimLiquidWallet) Ping() (bool, error) { return true, nil }

// ---------------------------------------------------------------------------
// Liquid watcher back-ends

func (n *Node) newLiquidWatcher(ctx context.Context) (swap.TxWatcher, error) {
	if n.w.Plan.Scn.LiquidBackend[n.ID] == "lwk" {
		return lwk.NewElectrumTxWatcher(&electrumStub{n: n, c: n.w.LBTC})
	}
	return txwatcher.NewBlockchainRpcTxWatcher(ctx, &rpcStub{n: n, c: n.w.LBTC}, onchain.LiquidConfs), nil
}

// electrumStub serves electrum.RPC from the simulated Liquid chain.
type electrumStub struct {
	n *Node
	c *SimChain
}

func (e *electrumStub) SubscribeHeaders(ctx context.Context) (<-chan *goelectrum.SubscribeHeadersResult, error) {
	f := e.n.op("electrum.subscribe")
	if f != nil && f.Kind == "err" {
		return nil, errors.New("electrum: connection refused")
	}
	ch := make(chan *goelectrum.SubscribeHeadersResult, 100000)
	ch <- &goelectrum.SubscribeHeadersResult{Height: int32(e.c.Height())}
	e.n.served(e.c.Name, e.c.Height())
	e.c.subscribe(e.n, ch)
	return ch, nil
}

func (e *electrumStub) GetHistory(ctx context.Context, scripthash string) ([]*goelectrum.GetMempoolResult, error) {
	f := e.n.lightOp("electrum.history")
	if f != nil && f.Kind == "err" {
		return nil, errors.New("electrum: request timeout")
	}
	return e.c.history(scripthash), nil
}

func (e *electrumStub) GetRawTransaction(ctx context.Context, txHash string) (string, error) {
	f := e.n.lightOp("electrum.getrawtx")
	if f != nil && f.Kind == "err" {
		return "", errors.New("electrum: request timeout")
	}
	tx := e.c.Txs[txHash]
	if tx == nil {
		return "", errors.New("missing transaction")
	}
	return tx.Hex, nil
}

func (e *electrumStub) BroadcastTransaction(ctx context.Context, rawTx string) (string, error) {
	return e.c.Broadcast(e.n.ID, rawTx, "spend")
}

func (e *electrumStub) GetFee(ctx context.Context, target uint32) (float32, error) {
	return 0.000001, nil
}
func (e *electrumStub) Ping(ctx context.Context) error   { return nil }
func (e *electrumStub) Reboot(ctx context.Context) error { e.n.lightOp("electrum.reboot"); return nil }

type headerSub struct {
	node int
	inc  int
	ch   chan *goelectrum.SubscribeHeadersResult
}

func (c *SimChain) subscribe(n *Node, ch chan *goelectrum.SubscribeHeadersResult) {
	c.subs = append(c.subs, headerSub{node: n.ID, inc: n.inc, ch: ch})
}

func (c *SimChain) notifyHeaders() {
	live := c.subs[:0]
	for _, s := range c.subs {
		n := c.w.Nodes[s.node]
		if n.inc != s.inc || !n.Up && n.db == nil {
			continue
		}
		select {
		case s.ch <- &goelectrum.SubscribeHeadersResult{Height: int32(c.Height())}:
			n.served(c.Name, c.Height())
		default:
		}
		live = append(live, s)
	}
	c.subs = live
}

// history answers blockchain.scripthash.get_history.
func (c *SimChain) history(scripthash string) []*goelectrum.GetMempoolResult {
	var out []*goelectrum.GetMempoolResult
	for _, txid := range c.byScriptHash[scripthash] {
		h := int32(0)
		if ch, ok := c.confAt[txid]; ok {
			h = int32(ch)
		} else if !c.InMempool(txid) {
			continue
		}
		out = append(out, &goelectrum.GetMempoolResult{Hash: txid, Height: h})
	}
	return out
}

func electrumScriptHash(script []byte) string {
	h := sha256.Sum256(script)
	r := make([]byte, 32)
	for i, b := range h {
		r[31-i] = b
	}
	return fmt.Sprintf("%X", r)
}
