// Package world is the simulated environment of the peerswap nodes: peer
// transport (SimNet), Lightning (SimLN), chains (SimChain), wallets, the
// scripted adversary and operator, and the wiring that builds a node the way
// cmd/*/main.go does.
package world

import (
	"fmt"
	"os"
	"sort"
	"strings"
	"time"

	"github.com/elementsproject/peerswap/swap"
	"github.com/elementsproject/peerswap/verifsim/rt"
)

// Obs is one observation of an externally visible action.
type Obs struct {
	T    time.Duration
	Step int
	Node int
	Inc  int
	Task string // id of the task that made the observation ("" = scheduler context)
	Kind string // send, deliver, pay.call, pay.result, htlc.add, htlc.settle, htlc.fail, invoice.new, tx.broadcast, tx.reject, store.write, block, crash, restart, panic, cb.conf, cb.csv, op, ...

	Msg   *MsgObs
	Pay   *PayObs
	Tx    *TxObs
	Store *StoreObs
	Str   string
	Num   int64
}

type MsgObs struct {
	From, To int
	Type     int
	Payload  []byte
	Idx      int // global send index
	SwapID   string
	Junk     bool
}

type PayObs struct {
	Idx       int
	Payer     int
	Payreq    string
	Hash      string
	Scid      string
	Fn        string // RebalancePayment / PayInvoiceViaChannel / RecoverClaimPayment / PayInvoice
	MaxCLTV   uint32
	Err       string
	Preimage  string
	BtcHeight uint32
	LHeight   uint32
	Lnd       *LndPayReq // tier 2: the SendPaymentV2 request the real lnd adapter emitted
	Cln       *ClnRoute  // tier 3: the sendpay route the real CLN adapter emitted
}

// LndPayReq: the fields of a routerrpc.SendPaymentRequest the oracles look at.
type LndPayReq struct {
	OutgoingChanIds []uint64
	OutgoingChanId  uint64
	MaxParts        uint32
	CltvLimit       int32
	FeeLimitMsat    int64
	AmtMsat, Amt    int64
	TimeoutSeconds  int32
	HasDest         bool
	LastHopPubkey   bool
}

type TxObs struct {
	Chain        string
	TxID         string
	Hex          string
	Kind         string // opening, spend, other
	Err          string
	SwapOutpoint string // for spends: the swap output spent
	Path         string // preimage, coop, csv (classified by the chain from the witness)
}

type StoreObs struct {
	SwapID string
	State  string
	Prev   string
	Raw    []byte // record as persisted (read back from bbolt)
	Err    string
	Phase  string // before, after
	Failed bool   // the caller (the state machine) was told the write failed (injected error before the write, real error, or acknowledgement lost after it)
}

// Violation is a property violation found by a monitor.
type Violation struct {
	Prop   string `json:"prop"`
	Sig    string `json:"sig"`    // stable signature: class + identifying attributes
	Detail string `json:"detail"` // human-readable
	Step   int    `json:"step"`
	T      string `json:"t"`
}

// Monitor evaluates one property's oracle.
type Monitor interface {
	Name() string
	OnObs(w *World, o *Obs)
	Final(w *World)
}

type World struct {
	Sim   *rt.Sim
	Plan  *Plan
	Dir   string
	Net   *SimNet
	LN    *SimLN
	BTC   *SimChain
	LBTC  *SimChain
	Nodes []*Node
	Adv   *Adversary

	Obs        []*Obs
	Violations []Violation
	Monitors   []Monitor
	Probes     map[string]int // rare-branch probes / fault counters

	faultOcc   map[string]int
	siteLast   map[string]time.Duration
	healing    bool
	twinsDone  map[int]bool
	FaultsFired map[int]int // node -> number of planned service faults that have fired there
	Infra      []string // infrastructure trouble (exit 2), never a verdict
	NodeLogs   [2][]string
	lastSM     *swap.SwapStateMachine
	opsPending int
	injN       int
	Watches    []*watchReg
}

func (w *World) Observe(o *Obs) {
	o.T = w.Sim.Now()
	o.Step = w.Sim.Steps()
	if t := rt.Self(); t != nil {
		o.Task = t.ID
	}
	w.Obs = append(w.Obs, o)
	w.Sim.Logf("OBS n%d %s %s", o.Node, o.Kind, o.brief())
	for _, m := range w.Monitors {
		m.OnObs(w, o)
	}
}

func (o *Obs) brief() string {
	switch {
	case o.Msg != nil:
		return fmt.Sprintf("%d->%d type=%x len=%d swap=%.8s idx=%d", o.Msg.From, o.Msg.To, o.Msg.Type, len(o.Msg.Payload), o.Msg.SwapID, o.Msg.Idx)
	case o.Pay != nil:
		return fmt.Sprintf("%s idx=%d hash=%.8s scid=%s max=%d err=%q pre=%.8s", o.Pay.Fn, o.Pay.Idx, o.Pay.Hash, o.Pay.Scid, o.Pay.MaxCLTV, o.Pay.Err, o.Pay.Preimage)
	case o.Tx != nil:
		return fmt.Sprintf("%s %s %.12s path=%s err=%q", o.Tx.Chain, o.Tx.Kind, o.Tx.TxID, o.Tx.Path, o.Tx.Err)
	case o.Store != nil:
		return fmt.Sprintf("%.8s %s<-%s %s err=%q", o.Store.SwapID, o.Store.State, o.Store.Prev, o.Store.Phase, o.Store.Err)
	}
	return fmt.Sprintf("%s %d", o.Str, o.Num)
}

func (w *World) Violate(prop, sig, format string, a ...interface{}) {
	v := Violation{Prop: prop, Sig: prop + ":" + sig, Detail: fmt.Sprintf(format, a...), Step: w.Sim.Steps(), T: w.Sim.Now().String()}
	for _, x := range w.Violations {
		if x.Sig == v.Sig {
			return
		}
	}
	w.Violations = append(w.Violations, v)
	w.Sim.Logf("VIOLATION %s %s", v.Sig, v.Detail)
}

func (w *World) Probe(name string) { w.Probes[name]++ }

func (w *World) Infraf(format string, a ...interface{}) {
	w.Infra = append(w.Infra, fmt.Sprintf(format, a...))
	w.Sim.Logf("INFRA %s", fmt.Sprintf(format, a...))
}

// faultFor returns the planned fault for this (node, site) occurrence.
func (w *World) faultFor(node int, site string) *Fault {
	w.noteSite(keyOf(node, site))
	if w.healing {
		return nil
	}
	key := fmt.Sprintf("%d/%s", node, site)
	w.faultOcc[key]++
	occ := w.faultOcc[key]
	for i := range w.Plan.Faults {
		f := &w.Plan.Faults[i]
		if f.Node != node || f.Site != site {
			continue
		}
		n := f.N
		if n <= 0 {
			n = 1
		}
		if f.ToMs > 0 {
			// time-window fault: every occurrence between FromMs and ToMs
			now := w.Sim.Now().Milliseconds()
			if now >= int64(f.FromMs) && now < int64(f.ToMs) {
				w.Probe("fault:" + f.Kind + ":" + site)
				w.noteFault(node)
				return f
			}
			continue
		}
		if f.Occ == 0 || (occ >= f.Occ && occ < f.Occ+n) {
			w.Probe("fault:" + f.Kind + ":" + site)
			w.noteFault(node)
			return f
		}
	}
	return nil
}

// SiteCounts reports how often each (node, site) was reached (for planning
// fault occurrences and for evidence).
func (w *World) SiteCounts() map[string]int {
	out := map[string]int{}
	for k, v := range w.faultOcc {
		out[k] = v
	}
	return out
}

// New builds the world for a plan. Must run inside the bubble.
func New(p *Plan, monitors []Monitor) (*World, error) {
	dir, err := os.MkdirTemp("/dev/shm", "verifsim-run-")
	if err != nil {
		return nil, err
	}
	cfg := rt.Config{Seed: p.Seed, SchedSeed: p.SchedSeed, SchedRate: p.SchedRate, Perturb: p.Perturb, SelectRot: p.SelectRot, MaxSteps: p.MaxSteps, CrashAtOp: map[int][]int{}}
	for _, c := range p.Crashes {
		cfg.CrashAtOp[c.Node] = append(cfg.CrashAtOp[c.Node], c.AtOp)
	}
	w := &World{Plan: p, Dir: dir, Probes: map[string]int{}, faultOcc: map[string]int{}, Monitors: monitors}
	curWorld = w
	w.Sim = rt.New(cfg)
	w.Net = newSimNet(w)
	w.LN = newSimLN(w)
	w.BTC = newSimChain(w, "btc", p.Scn.StartHeightBTC)
	w.LBTC = newSimChain(w, "lbtc", p.Scn.StartHeightLBTC)
	w.Sim.OnPanic = func(t *rt.Task, v interface{}, stack string) {
		// A panic in node code is a crash of that node caused by its input.
		w.Sim.Logf("PANIC task=%s node=%d: %v", t.ID, t.Node, v)
		if t.Node >= 0 && t.Node < len(w.Nodes) {
			n := w.Nodes[t.Node]
			if n.Real && t.Inc == w.Sim.Incarnation(t.Node) {
				w.Observe(&Obs{Node: t.Node, Inc: t.Inc, Kind: "panic", Str: fmt.Sprintf("%v", v) + "\n" + trimStack(stack)})
				w.Sim.After(0, "crash", fmt.Sprintf("panic-crash n%d", t.Node), func() { n.Crash(1000) })
				return
			}
			if t.Inc != w.Sim.Incarnation(t.Node) {
				return // garbage of a dead incarnation
			}
		}
		w.Infraf("panic in harness task %s: %v\n%s", t.ID, v, stack)
	}
	w.Sim.OnCrashRequest = func(node int) {
		n := w.Nodes[node]
		ms := 1000
		for _, c := range p.Crashes {
			if c.Node == node && c.RestartMs > 0 {
				ms = c.RestartMs
			}
		}
		w.Probe("crash")
		n.Crash(ms)
	}
	for i := 0; i < 2; i++ {
		n := newNode(w, i)
		w.Nodes = append(w.Nodes, n)
	}
	// node 2: third party, never real code, controlled by the adversary
	w.Nodes = append(w.Nodes, &Node{w: w, ID: 2, Pubkey: NodePubkey(2), Kind: "third", Flavor: "cln"})
	w.LN.setup()
	return w, nil
}

func trimStack(s string) string {
	lines := strings.Split(s, "\n")
	var keep []string
	for _, l := range lines {
		if strings.Contains(l, "peerswap/") && !strings.Contains(l, "verifsim") {
			keep = append(keep, strings.TrimSpace(l))
		}
		if len(keep) >= 6 {
			break
		}
	}
	return strings.Join(keep, " | ")
}

// Cleanup removes the run's scratch files.
func (w *World) Cleanup() {
	for _, n := range w.Nodes {
		n.closeFiles()
	}
	os.RemoveAll(w.Dir)
	w.Sim.Close()
	// (same reason: parked goroutines of this run keep the world reachable)
	w.Obs, w.Monitors = nil, nil
	w.NodeLogs = [2][]string{}
	for _, c := range []*SimChain{w.BTC, w.LBTC} {
		if c != nil {
			c.Txs, c.Swaps, c.byScriptHash = nil, nil, nil
		}
	}
	if w.LN != nil {
		w.LN.Payments, w.LN.Invoices = nil, nil
	}
	if curWorld == w {
		curWorld = nil
	}
}

// ProbeList returns probes sorted by name.
func (w *World) ProbeList() []string {
	var ks []string
	for k := range w.Probes {
		ks = append(ks, k)
	}
	sort.Strings(ks)
	return ks
}

func ms(n int) time.Duration { return time.Duration(n) * time.Millisecond }

func (w *World) noteFault(node int) {
	if w.FaultsFired == nil {
		w.FaultsFired = map[int]int{}
	}
	w.FaultsFired[node]++
}

// ackLost marks an opening broadcast whose acknowledgement the plan makes the wallet lose.
func ackLost(f *Fault) string {
	if f != nil && f.Kind == "errafter" {
		return "ack-lost"
	}
	return ""
}
