package world

import "strings"

// stuckCause qualifies a "stuck" verdict of C16 with what the chain says about
// the swap output, so that recorded findings stay narrow: a node that keeps
// building conflicting claims because the acknowledgement of its own, already
// accepted claim was lost is one history; any other way of hanging in the same
// state is another.
func stuckCause(w *World, r *Rec) string {
	if r.Data.OpeningTxBroadcasted == nil {
		return ""
	}
	c := w.BTC
	if r.Chain() == "lbtc" {
		c = w.LBTC
	}
	for _, so := range c.SwapByTx(r.Data.OpeningTxBroadcasted.TxID) {
		if so.SpentBy == "" {
			continue
		}
		switch {
		case strings.HasSuffix(r.Current, "_ClaimSwap") && so.SpendPath == "preimage",
			strings.HasSuffix(r.Current, "_ClaimSwapCsv") && so.SpendPath == "csv",
			strings.HasSuffix(r.Current, "_ClaimSwapCoop") && so.SpendPath == "coop":
			return ":own-claim-already-onchain"
		}
	}
	return ""
}
