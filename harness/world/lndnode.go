package world

import (
	"context"
	"time"

	"github.com/btcsuite/btcd/chaincfg"
	"github.com/elementsproject/peerswap/lnd"
	"github.com/elementsproject/peerswap/messages"
	"github.com/elementsproject/peerswap/onchain"
	"github.com/elementsproject/peerswap/swap"
	"github.com/elementsproject/peerswap/verifsim/rt"
)

// lndShim sits between the swap service and the real lnd.Client. It forwards
// every call unchanged; its only job is to tell the simulated LND what the
// caller is doing (which swap and invoice type an AddInvoice belongs to, which
// swap parameters a FundPsbt serves, whether a SendPaymentV2 is the fee or the
// claim payment) - knowledge the oracles need and lnd's RPCs do not carry.
type lndShim struct {
	n *Node
	c *lnd.Client
	f *fakeLnd
}

func (s *lndShim) DecodePayreq(payreq string) (string, uint64, int64, error) { return s.c.DecodePayreq(payreq) }
func (s *lndShim) PayInvoice(payreq string) (string, error) {
	defer s.f.annotate(&lndAnn{fn: "PayInvoice"})()
	return s.c.PayInvoice(payreq)
}
func (s *lndShim) GetPayreq(msatAmount uint64, preimage string, swapId string, memo string, invoiceType swap.InvoiceType, expirySeconds, expiryCltv uint64) (string, error) {
	defer s.f.annotate(&lndAnn{swapID: swapId, invType: invoiceType})()
	return s.c.GetPayreq(msatAmount, preimage, swapId, memo, invoiceType, expirySeconds, expiryCltv)
}
func (s *lndShim) PayInvoiceViaChannel(payreq string, channel string) (string, error) {
	defer s.f.annotate(&lndAnn{fn: "PayInvoiceViaChannel"})()
	return s.c.PayInvoiceViaChannel(payreq, channel)
}
func (s *lndShim) AddPaymentCallback(f func(swapId string, invoiceType swap.InvoiceType)) {
	n := s.n
	s.c.AddPaymentCallback(func(swapId string, invoiceType swap.InvoiceType) {
		n.checkAlive()
		f(swapId, invoiceType)
	})
}
func (s *lndShim) AddPaymentNotifier(swapId string, payreq string, invoiceType swap.InvoiceType) {
	s.c.AddPaymentNotifier(swapId, payreq, invoiceType)
}
func (s *lndShim) RebalancePayment(payreq string, channel string, maxTotalCLTVDelta uint32) (string, error) {
	defer s.f.annotate(&lndAnn{fn: "RebalancePayment"})()
	return s.c.RebalancePayment(payreq, channel, maxTotalCLTVDelta)
}
func (s *lndShim) RecoverClaimPayment(payreq string) (string, error) { return s.c.RecoverClaimPayment(payreq) }
func (s *lndShim) CanSpend(amountMsat uint64) error                 { return s.c.CanSpend(amountMsat) }
func (s *lndShim) Implementation() string                           { return s.c.Implementation() }
func (s *lndShim) SpendableMsat(scid string) (uint64, error)        { return s.c.SpendableMsat(scid) }
func (s *lndShim) ReceivableMsat(scid string) (uint64, error)       { return s.c.ReceivableMsat(scid) }
func (s *lndShim) ProbePayment(scid string, amountMsat uint64) (bool, string, error) {
	return s.c.ProbePayment(scid, amountMsat)
}

// swap.Messenger
func (s *lndShim) SendMessage(peerId string, message []byte, messageType int) error {
	return s.c.SendMessage(peerId, message, messageType)
}
func (s *lndShim) AddMessageHandler(f func(peerId string, msgType string, payload []byte) error) {
	n := s.n
	s.c.AddMessageHandler(func(peerId string, msgType string, payload []byte) error {
		n.checkAlive()
		// the listener hands over messages in arrival order: recover the delivery index
		idx := -1
		if len(n.lndPending) > 0 {
			idx = n.lndPending[0].idx
			n.lndPending = n.lndPending[1:]
		}
		n.w.Observe(&Obs{Node: n.ID, Inc: n.inc, Kind: "handling", Num: int64(idx)})
		err := f(peerId, msgType, payload)
		n.w.Observe(&Obs{Node: n.ID, Inc: n.inc, Kind: "handled", Num: int64(idx)})
		return err
	})
}

// swap.Wallet (bitcoin)
func (s *lndShim) SetLabel(txID, address, label string) error { return s.c.SetLabel(txID, address, label) }
func (s *lndShim) CreateOpeningTransaction(p *swap.OpeningParams) (string, string, string, uint64, uint32, error) {
	defer s.f.annotate(&lndAnn{opening: p})()
	return s.c.CreateOpeningTransaction(p)
}
func (s *lndShim) CreatePreimageSpendingTransaction(p *swap.OpeningParams, c *swap.ClaimParams) (string, string, string, error) {
	return s.c.CreatePreimageSpendingTransaction(p, c)
}
func (s *lndShim) CreateCsvSpendingTransaction(p *swap.OpeningParams, c *swap.ClaimParams) (string, string, string, error) {
	return s.c.CreateCsvSpendingTransaction(p, c)
}
func (s *lndShim) CreateCoopSpendingTransaction(p *swap.OpeningParams, c *swap.ClaimParams, takerSigner swap.Signer) (string, string, string, error) {
	return s.c.CreateCoopSpendingTransaction(p, c, takerSigner)
}
func (s *lndShim) GetOutputScript(p *swap.OpeningParams) ([]byte, error) { return s.c.GetOutputScript(p) }
func (s *lndShim) NewAddress() (string, error)                           { return s.c.NewAddress() }
func (s *lndShim) GetRefundFee() (uint64, error)                         { return s.c.GetRefundFee() }
func (s *lndShim) GetFlatOpeningTXFee() (uint64, error)                  { return s.c.GetFlatOpeningTXFee() }
func (s *lndShim) GetAsset() string                                      { return s.c.GetAsset() }
func (s *lndShim) GetNetwork() string                                    { return s.c.GetNetwork() }
func (s *lndShim) GetOnchainBalance() (uint64, error)                    { return s.c.GetOnchainBalance() }

// bootLnd builds the lnd side of a node the way cmd/peerswaplnd/peerswapd/main.go
// does: tx watcher, estimator, bitcoin on-chain service, message listener,
// payment watcher, client. The listeners are started by startLndListening after
// the swaps have been recovered, as in main.go.
func (n *Node) bootLnd(ctx context.Context) (*lndShim, swap.TxWatcher, error) {
	f := newFakeLnd(n)
	n.lnd = f
	chain := &chaincfg.RegressionNetParams
	txw, err := lnd.NewTxWatcher(ctx, f.cc, chain, onchain.BitcoinMinConfs, onchain.BitcoinCsv)
	if err != nil {
		return nil, nil, err
	}
	floor := onchain.LegacyFeeFloorSatPerKw
	est, err := onchain.NewLndEstimator(f.WalletKit(), floor, 10*time.Minute)
	if err != nil {
		return nil, nil, err
	}
	if err := est.Start(); err != nil {
		return nil, nil, err
	}
	n.BtcOn = onchain.NewBitcoinOnChain(est, floor, floor, chain)
	n.BtcWallet.onchain = n.BtcOn
	ml, err := lnd.NewMessageListener(ctx, f.cc)
	if err != nil {
		return nil, nil, err
	}
	pw, err := lnd.NewPaymentWatcher(ctx, f.cc)
	if err != nil {
		return nil, nil, err
	}
	c, err := lnd.NewClient(ctx, f.cc, pw, ml, n.BtcOn)
	if err != nil {
		return nil, nil, err
	}
	n.lndClient = c
	return &lndShim{n: n, c: c, f: f}, txw, nil
}

func (n *Node) startLndListening() error {
	if n.lndClient == nil {
		return nil
	}
	rt.ReleaseLineage()
	n.mu.Lock()
	n.lndSwapSubscribing = true
	n.mu.Unlock()
	err := n.lndClient.StartListening()
	n.mu.Lock()
	n.lndSwapSubscribing = false
	n.mu.Unlock()
	return err
}

var _ = messages.MESSAGETYPE_POLL
