package world

import (
	"encoding/hex"
	"encoding/json"
	"strings"
	"time"
)

// Protocol message numbers, written from docs/peer-protocol.md (not imported
// from the code under test).
const (
	MsgSwapInRequest    = 42069
	MsgSwapOutRequest   = 42071
	MsgSwapInAgreement  = 42073
	MsgSwapOutAgreement = 42075
	MsgOpeningTx        = 42077
	MsgCancel           = 42079
	MsgCoopClose        = 42081
	MsgPoll             = 42083
	MsgRequestPoll      = 42085
)

func MsgName(t int) string {
	switch t {
	case MsgSwapInRequest:
		return "swap_in_request"
	case MsgSwapOutRequest:
		return "swap_out_request"
	case MsgSwapInAgreement:
		return "swap_in_agreement"
	case MsgSwapOutAgreement:
		return "swap_out_agreement"
	case MsgOpeningTx:
		return "opening_tx_broadcasted"
	case MsgCancel:
		return "cancel"
	case MsgCoopClose:
		return "coop_close"
	case MsgPoll:
		return "poll"
	case MsgRequestPoll:
		return "request_poll"
	}
	return "other"
}

// Rec is an independent decoding of a persisted swap record.
type Rec struct {
	SwapID   string  `json:"swap_id"`
	Type     int     `json:"type"` // 1 swap-in, 2 swap-out
	Role     int     `json:"role"` // 1 sender (initiator), 2 receiver (responder)
	Previous string  `json:"previous"`
	Current  string  `json:"current"`
	Data     RecData `json:"data"`
}

type RecRequest struct {
	ProtocolVersion int    `json:"protocol_version"`
	SwapID          string `json:"swap_id"`
	Network         string `json:"network"`
	Asset           string `json:"asset"`
	Scid            string `json:"scid"`
	Amount          uint64 `json:"amount"`
	Pubkey          string `json:"pubkey"`
	PremiumLimit    int64  `json:"acceptable_premium"`
}

type RecAgreement struct {
	ProtocolVersion int    `json:"protocol_version"`
	SwapID          string `json:"swap_id"`
	Pubkey          string `json:"pubkey"`
	Payreq          string `json:"Payreq"`
	Premium         int64  `json:"premium"`
}

type RecOpening struct {
	SwapID      string `json:"swap_id"`
	Payreq      string `json:"payreq"`
	TxID        string `json:"tx_id"`
	ScriptOut   uint32 `json:"script_out"`
	BlindingKey string `json:"blinding_key"`
}

type RecCoop struct {
	SwapID  string `json:"swap_id"`
	Message string `json:"message"`
	Privkey string `json:"privkey"`
}

type RecCancel struct {
	SwapID  string `json:"swap_id"`
	Message string `json:"message"`
}

type RecData struct {
	SwapInRequest        *RecRequest   `json:"swap_in_request"`
	SwapInAgreement      *RecAgreement `json:"swap_in_agreement"`
	SwapOutRequest       *RecRequest   `json:"swap_out_request"`
	SwapOutAgreement     *RecAgreement `json:"swap_out_agreement"`
	OpeningTxBroadcasted *RecOpening   `json:"opening_tx_broadcasted"`
	CoopClose            *RecCoop      `json:"coop_close_message"`
	Cancel               *RecCancel    `json:"cancel_message_obj"`
	CancelMessage        string        `json:"cancel_message"`
	PeerNodeID           string        `json:"peer_node_id"`
	InitiatorNodeID      string        `json:"initiator_node_id"`
	Role                 int           `json:"role"`
	FSMState             string        `json:"fsm_state"`
	PrivkeyBytes         []byte        `json:"private_key"`
	FeePreimage          string        `json:"fee_preimage"`
	OpeningTxFee         uint64        `json:"opening_tx_fee"`
	OpeningTxHex         string        `json:"opening_tx_hex"`
	StartingBlockHeight  uint32        `json:"opening_block_height"`
	AnchorSet            bool          `json:"opening_block_height_set"`
	ClaimTxID            string        `json:"claim_tx_id"`
	ClaimPaymentHash     string        `json:"claim_payment_hash"`
	ClaimPreimage        string        `json:"claim_preimage"`
	BlindingKeyHex       string        `json:"blinding_key"`
	NextMessage          []byte        `json:"next_message"`
	NextMessageType      int           `json:"next_message_type"`
	LastErr              string        `json:"last_err"`
}

func DecodeRec(raw []byte) *Rec {
	if len(raw) == 0 {
		return nil
	}
	r := &Rec{}
	if err := json.Unmarshal(raw, r); err != nil {
		return nil
	}
	return r
}

func (r *Rec) Request() *RecRequest {
	if r.Data.SwapInRequest != nil {
		return r.Data.SwapInRequest
	}
	return r.Data.SwapOutRequest
}

func (r *Rec) Agreement() *RecAgreement {
	if r.Data.SwapInAgreement != nil {
		return r.Data.SwapInAgreement
	}
	return r.Data.SwapOutAgreement
}

func (r *Rec) Chain() string {
	q := r.Request()
	if q == nil {
		return ""
	}
	if q.Asset != "" && q.Network == "" {
		return "lbtc"
	}
	if q.Asset == "" && q.Network != "" {
		return "btc"
	}
	return ""
}

func (r *Rec) IsSwapIn() bool { return r.Data.SwapInRequest != nil || r.Type == 1 }

// IsMaker: the side that funds the opening transaction.
func (r *Rec) IsMaker() bool {
	if r.IsSwapIn() {
		return r.Role == 1
	}
	return r.Role == 2
}

func (r *Rec) IsTaker() bool { return !r.IsMaker() }

func IsTerminalState(s string) bool {
	switch s {
	case "State_ClaimedCsv", "State_SwapCanceled", "State_ClaimedPreimage", "State_ClaimedCoop":
		return true
	}
	return false
}

func (r *Rec) Terminal() bool { return IsTerminalState(r.Current) }

func (r *Rec) ClaimHash() string {
	if r.Data.OpeningTxBroadcasted == nil {
		return ""
	}
	b, err := DecodePayreqBody(r.Data.OpeningTxBroadcasted.Payreq)
	if err != nil {
		return ""
	}
	return b.H
}

func (r *Rec) PrivkeyHex() string { return hex.EncodeToString(r.Data.PrivkeyBytes) }

// ---------------------------------------------------------------------------
// Tracker: knowledge about swaps per node, kept from observations. Always
// installed first so that other monitors can query it.

type SwapInfo struct {
	Node       int
	ID         string
	Rec        *Rec   // latest successfully persisted record
	Raw        []byte // its bytes
	States     []string
	FirstSeen  time.Duration
	TerminalAt time.Duration
	PeerNode   int
}

type Tracker struct {
	Swaps map[int]map[string]*SwapInfo
}

func NewTracker() *Tracker { return &Tracker{Swaps: map[int]map[string]*SwapInfo{0: {}, 1: {}}} }

func (t *Tracker) Name() string { return "tracker" }

func (t *Tracker) OnObs(w *World, o *Obs) {
	if o.Kind != "store.write" || o.Store == nil || o.Store.Err != "" || o.Store.Raw == nil {
		return
	}
	m := t.Swaps[o.Node]
	if m == nil {
		m = map[string]*SwapInfo{}
		t.Swaps[o.Node] = m
	}
	si := m[o.Store.SwapID]
	rec := DecodeRec(o.Store.Raw)
	if rec == nil {
		return
	}
	if si == nil {
		si = &SwapInfo{Node: o.Node, ID: o.Store.SwapID, FirstSeen: o.T, PeerNode: -1}
		m[o.Store.SwapID] = si
	}
	si.Rec = rec
	si.Raw = o.Store.Raw
	for _, n := range w.Nodes {
		if n.Pubkey == rec.Data.PeerNodeID {
			si.PeerNode = n.ID
		}
	}
	if len(si.States) == 0 || si.States[len(si.States)-1] != rec.Current {
		si.States = append(si.States, rec.Current)
	}
	if rec.Terminal() && si.TerminalAt == 0 {
		si.TerminalAt = o.T
	}
}

func (t *Tracker) Final(w *World) {}

func (t *Tracker) Get(node int, id string) *SwapInfo {
	if m := t.Swaps[node]; m != nil {
		return m[id]
	}
	return nil
}

// ByClaimHash finds node's swap whose claim invoice has the given hash.
func (t *Tracker) ByClaimHash(node int, hash string) *SwapInfo {
	for _, si := range t.Swaps[node] {
		if si.Rec != nil && si.Rec.ClaimHash() == hash && hash != "" {
			return si
		}
	}
	return nil
}

// FreshRec reads the record as it is on disk right now (nil if node is down).
func (w *World) FreshRec(node int, id string) *Rec {
	return DecodeRec(w.Nodes[node].RawRecord(id))
}

func shortState(s string) string {
	s = strings.TrimPrefix(s, "State_")
	return s
}
