package world

import (
	"time"
	"errors"
	"fmt"

	"github.com/btcsuite/btcd/btcutil"
	"github.com/elementsproject/peerswap/swap"
	"github.com/elementsproject/peerswap/txwatcher"
	"github.com/elementsproject/peerswap/verifsim/rt"
)

// ---------------------------------------------------------------------------
// swap.Messenger

type messengerStub struct{ n *Node }

func (m *messengerStub) SendMessage(peerId string, message []byte, messageType int) error {
	n := m.n
	f := n.op("net.send")
	if f != nil && f.Kind == "err" {
		return errors.New("custommsg: peer not reachable")
	}
	err := n.w.Net.Send(n.ID, peerId, message, messageType)
	if f != nil && f.Kind == "errafter" {
		return errors.New("custommsg: rpc timeout")
	}
	return err
}

func (m *messengerStub) AddMessageHandler(f func(peerId string, msgType string, payload []byte) error) {
	m.n.handlers = append(m.n.handlers, f)
}

// ---------------------------------------------------------------------------
// swap.LightningClient (tier 1: at the swap interface)

type lnStub struct{ n *Node }

func (l *lnStub) DecodePayreq(payreq string) (string, uint64, int64, error) {
	l.n.lightOp("ln.decode")
	b, err := DecodePayreqBody(payreq)
	if err != nil {
		return "", 0, 0, err
	}
	return b.H, b.A, b.C, nil
}

func (l *lnStub) PayInvoice(payreq string) (string, error) {
	return "", errors.New("PayInvoice is not used by the swap state machines")
}

func (l *lnStub) GetPayreq(msatAmount uint64, preimage string, swapId string, memo string, invoiceType swap.InvoiceType, expirySeconds, expiryCltv uint64) (string, error) {
	n := l.n
	f := n.op("ln.invoice")
	if f != nil && f.Kind == "err" {
		return "", errors.New("lightning rpc unavailable")
	}
	inv, err := n.w.LN.NewInvoice(n.ID, msatAmount, preimage, swapId, invoiceType, memo, expirySeconds, expiryCltv)
	if err != nil {
		return "", err
	}
	if f != nil && f.Kind == "errafter" {
		return "", errors.New("lightning rpc timeout")
	}
	return inv.Payreq, nil
}

func (l *lnStub) PayInvoiceViaChannel(payreq string, channel string) (string, error) {
	return l.n.w.LN.Pay(l.n, "PayInvoiceViaChannel", payreq, channel, 0)
}

func (l *lnStub) AddPaymentCallback(f func(swapId string, invoiceType swap.InvoiceType)) {
	l.n.payCb = f
}

func (l *lnStub) AddPaymentNotifier(swapId string, payreq string, invoiceType swap.InvoiceType) {
	l.n.op("ln.notifier")
	rt.ReleaseLineage() // race builds: the later notification is ordered after this registration
	l.n.w.LN.AddNotifier(l.n, swapId, payreq, invoiceType)
}

func (l *lnStub) RebalancePayment(payreq string, channel string, maxTotalCLTVDelta uint32) (string, error) {
	return l.n.w.LN.Pay(l.n, "RebalancePayment", payreq, channel, maxTotalCLTVDelta)
}

func (l *lnStub) RecoverClaimPayment(payreq string) (string, error) {
	return l.n.w.LN.Recover(l.n, payreq)
}

func (l *lnStub) CanSpend(amountMsat uint64) error { return nil }

func (l *lnStub) Implementation() string {
	if l.n.Flavor == "lnd" {
		return "LND"
	}
	return "CLN"
}

func (l *lnStub) SpendableMsat(scid string) (uint64, error) {
	n := l.n
	f := n.op("ln.spendable")
	if f != nil && f.Kind == "err" {
		return 0, errors.New("lightning rpc unavailable")
	}
	ch := n.w.LN.channel(scid)
	if ch == nil || ch.peerOf(n.ID) < 0 {
		return 0, fmt.Errorf("could not find a channel with scid: %s", scid)
	}
	return ch.spendable(n.ID), nil
}

func (l *lnStub) ReceivableMsat(scid string) (uint64, error) {
	n := l.n
	f := n.op("ln.receivable")
	if f != nil && f.Kind == "err" {
		return 0, errors.New("lightning rpc unavailable")
	}
	ch := n.w.LN.channel(scid)
	if ch == nil || ch.peerOf(n.ID) < 0 {
		return 0, fmt.Errorf("could not find a channel with scid: %s", scid)
	}
	return ch.spendable(ch.peerOf(n.ID)), nil
}

func (l *lnStub) ProbePayment(scid string, amountMsat uint64) (bool, string, error) {
	n := l.n
	f := n.op("ln.probe")
	if f != nil && f.Kind == "err" {
		return false, "", errors.New("lightning rpc unavailable")
	}
	ch := n.w.LN.channel(scid)
	if ch == nil || ch.peerOf(n.ID) < 0 {
		return false, "", fmt.Errorf("could not find a channel with scid: %s", scid)
	}
	if ch.spendable(n.ID) < amountMsat {
		return false, "TEMPORARY_CHANNEL_FAILURE", nil
	}
	return true, "", nil
}

// ---------------------------------------------------------------------------
// swap.Store shim: pass-through to the real bbolt store; park/fault/crash point.

type storeShim struct {
	n    *Node
	real swap.Store
}

func (s *storeShim) UpdateData(sm *swap.SwapStateMachine) error {
	n := s.n
	f := n.op("store.update")
	id := sm.SwapId.String()
	if f != nil && f.Kind == "err" {
		n.w.Observe(&Obs{Node: n.ID, Inc: n.inc, Kind: "store.write", Store: &StoreObs{SwapID: id, State: string(sm.Current), Prev: string(sm.Previous), Err: "injected before write", Phase: "before", Failed: true}})
		return errors.New("bbolt: write failed (disk full)")
	}
	err := s.real.UpdateData(sm)
	so := &StoreObs{SwapID: id, State: string(sm.Current), Prev: string(sm.Previous), Phase: "after"}
	so.Failed = err != nil || (f != nil && f.Kind == "errafter")
	if err != nil {
		so.Err = err.Error()
	} else {
		so.Raw = n.RawRecord(id)
	}
	o := &Obs{Node: n.ID, Inc: n.inc, Kind: "store.write", Store: so}
	n.w.observeWithSM(o, sm)
	if err == nil && f != nil && f.Kind == "errafter" {
		return errors.New("bbolt: commit acknowledged late (timeout)")
	}
	return err
}

func (s *storeShim) GetData(id string) (*swap.SwapStateMachine, error) {
	s.n.lightOp("store.get")
	return s.real.GetData(id)
}

func (s *storeShim) ListAll() ([]*swap.SwapStateMachine, error) {
	s.n.lightOp("store.list")
	return s.real.ListAll()
}

func (s *storeShim) ListAllByPeer(peer string) ([]*swap.SwapStateMachine, error) {
	s.n.lightOp("store.list")
	return s.real.ListAllByPeer(peer)
}

// observeWithSM lets monitors see the in-memory machine that was just written.
func (w *World) observeWithSM(o *Obs, sm *swap.SwapStateMachine) {
	w.lastSM = sm
	w.Observe(o)
	w.lastSM = nil
}

// LastSM is the in-memory state machine of the store.write being observed.
func (w *World) LastSM() *swap.SwapStateMachine { return w.lastSM }

// ---------------------------------------------------------------------------
// txwatcher.BlockchainRpc served by a SimChain

type rpcStub struct {
	n *Node
	c *SimChain
}

func (r *rpcStub) String() string { return r.c.Name }

func (r *rpcStub) GetBlockHeight() (uint64, error) {
	f := r.n.lightOp(r.c.Name + ".rpc.height")
	if f != nil {
		switch f.Kind {
		case "err":
			return 0, errors.New("rpc: connection refused")
		case "stale":
			if h := r.c.Height(); h > r.c.Base {
				r.n.served(r.c.Name, h-1)
				return uint64(h - 1), nil
			}
		case "behind":
			// a back-end that is still catching up (after a restart, a re-sync, a swapped
			// node): it answers with a tip Ms blocks in the past
			back := uint32(f.Ms)
			if back == 0 {
				back = 100
			}
			if h := r.c.Height(); h > back {
				r.n.served(r.c.Name, h-back)
				return uint64(h - back), nil
			}
		}
	}
	r.n.served(r.c.Name, r.c.Height())
	return uint64(r.c.Height()), nil
}

// served records the last chain height a node's back-end answered with.
func (n *Node) served(chain string, h uint32) {
	n.mu.Lock()
	if n.LastHeight == nil {
		n.LastHeight = map[string]uint32{}
	}
	n.LastHeight[chain] = h
	if l := n.servedLog[chain]; len(l) == 0 || l[len(l)-1].h != h {
		if n.servedLog == nil {
			n.servedLog = map[string][]servedAt{}
		}
		n.servedLog[chain] = append(n.servedLog[chain], servedAt{n.w.Sim.Now(), h})
	}
	if t := rt.Self(); t != nil {
		if n.heightByTask == nil {
			n.heightByTask = map[string]uint32{}
		}
		n.heightByTask[t.ID+"/"+chain] = h
		n.noteServedAt(t.ID, chain)
	}
	n.mu.Unlock()
}

// ServedHeightToTask returns the last height of chain served to a given task
// of the node (the knowledge that task acted on).
func (n *Node) ServedHeightToTask(task, chain string) (uint32, bool) {
	n.mu.Lock()
	defer n.mu.Unlock()
	h, ok := n.heightByTask[task+"/"+chain]
	return h, ok
}

// ServedHeight returns the last height the node was told for chain.
func (n *Node) ServedHeight(chain string) (uint32, bool) {
	n.mu.Lock()
	defer n.mu.Unlock()
	h, ok := n.LastHeight[chain]
	return h, ok
}

func (r *rpcStub) GetTxOut(txid string, vout uint32) (*txwatcher.TxOutResp, error) {
	f := r.n.lightOp(r.c.Name + ".rpc.gettxout")
	if f != nil && f.Kind == "err" {
		return nil, errors.New("rpc: connection refused")
	}
	if f != nil && f.Kind == "empty" {
		// the back-end does not know the output (yet): e.g. the transaction has not reached it
		return nil, nil
	}
	conf, ok := r.c.TxOut(txid, vout)
	if !ok {
		return nil, nil
	}
	best := r.c.BestHash()
	if f != nil && f.Kind == "stale" {
		// bestblock of the answer lags one block behind
		if h := r.c.Height(); h > r.c.Base {
			best, _ = r.c.BlockHash(h - 1)
			if conf > 0 {
				conf--
			}
		}
	}
	resp := &txwatcher.TxOutResp{BestBlockHash: best, Confirmations: conf, Value: 0}
	if f != nil && f.Kind == "lag" {
		// the answer is computed now and arrives Ms later (a loaded back-end, a slow link): what
		// the caller gets describes the chain as it was when the request was served
		d := f.Ms
		if d <= 0 {
			d = 1500
		}
		rt.NewEvent("lag").WaitTimeout(r.c.Name+".rpc.gettxout.lag", ms(d))
		r.n.checkAlive()
	}
	return resp, nil
}

func (r *rpcStub) GetBlockHash(height uint32) (string, error) {
	f := r.n.lightOp(r.c.Name + ".rpc.blockhash")
	if f != nil && f.Kind == "err" {
		return "", errors.New("rpc: connection refused")
	}
	return r.c.BlockHash(height)
}

func (r *rpcStub) GetRawtransactionWithBlockHash(txId string, blockHash string) (string, error) {
	f := r.n.lightOp(r.c.Name + ".rpc.getrawtx")
	if f != nil && f.Kind == "err" {
		return "", errors.New("rpc: connection refused")
	}
	hexTx, ok := r.c.TxInBlock(txId, blockHash)
	if !ok {
		return "", errors.New("No such transaction found in the provided block")
	}
	return hexTx, nil
}

// ---------------------------------------------------------------------------
// onchain.Estimator

type estimatorStub struct{ n *Node }

func (e *estimatorStub) EstimateFeePerKW(targetBlocks uint32) (btcutil.Amount, error) {
	f := e.n.lightOp("btc.estimatefee")
	if f != nil {
		switch f.Kind {
		case "err":
			return 0, errors.New("estimatesmartfee: insufficient data")
		case "zero":
			return 0, nil
		case "huge":
			if e.n.ext.maxFeeKw < 5_000_000 {
				e.n.ext.maxFeeKw = 5_000_000
			}
			return 5_000_000, nil
		}
	}
	return btcutil.Amount(e.n.w.Plan.Scn.BtcFeePerKw[e.n.ID]), nil
}

func (e *estimatorStub) Start() error { return nil }

type servedAt struct {
	at time.Duration
	h  uint32
}

// ServedHeightBefore: the highest height of chain the node's back-end had told it
// (answers to its queries, headers pushed to its subscription) by time t.
func (n *Node) ServedHeightBefore(chain string, t time.Duration) (uint32, bool) {
	n.mu.Lock()
	defer n.mu.Unlock()
	var best uint32
	ok := false
	for _, s := range n.servedLog[chain] {
		if s.at <= t {
			if s.h > best {
				best = s.h
			}
			ok = true
		}
	}
	return best, ok
}
