package world

// advPeer is the protocol-speaking hostile counterparty (see adv_peer_impl.go).
type advPeer struct {
	a  *Adversary
	id int
}

func newAdvPeer(a *Adversary, id int) *advPeer                 { return &advPeer{a: a, id: id} }
func (p *advPeer) start()                                      {}
func (p *advPeer) onMessage(from int, typ int, payload []byte) {}
func (p *advPeer) onHTLC(pm *Payment, inv *Invoice) string     { return "settle" }
