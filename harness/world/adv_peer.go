package world

import (
	"bytes"
	"crypto/sha256"
	"encoding/hex"
	"encoding/json"
	"fmt"
	"strings"
	"time"

	"github.com/btcsuite/btcd/btcec/v2"
	"github.com/btcsuite/btcd/btcec/v2/ecdsa"
	"github.com/btcsuite/btcd/chaincfg/chainhash"
	"github.com/btcsuite/btcd/txscript"
	"github.com/btcsuite/btcd/wire"
	"github.com/elementsproject/peerswap/swap"
	"github.com/vulpemventures/go-elements/confidential"
	"github.com/vulpemventures/go-elements/elementsutil"
	"github.com/vulpemventures/go-elements/transaction"
)

// AdvCfg scripts the hostile counterparty. It speaks the protocol from its own
// message definitions (rec.go) and builds transactions with its own factory.
type AdvCfg struct {
	Role     string `json:"role"`     // "maker" or "taker"
	Initiate bool   `json:"initiate"` // adversary starts the swap (swap-in as maker, swap-out as taker)
	StartMs  int    `json:"start_ms,omitempty"`
	Chain    string `json:"chain"`
	Amount   uint64 `json:"amount"`
	Colon    bool   `json:"colon,omitempty"`
	Version  int    `json:"version,omitempty"` // protocol version claimed (0 => 7)
	Limit    int64  `json:"limit,omitempty"`   // acceptable_premium in a request
	Premium  int64  `json:"premium,omitempty"` // premium in an agreement
	Pubkey   string `json:"pubkey,omitempty"`  // "", "short", "notpoint"
	Network  string `json:"network,omitempty"` // override of the network/asset fields of a request: "", "othernet", "otherasset", "both", "none"

	FeeSat          int64     `json:"fee_sat,omitempty"` // fee invoice amount when answering a swap-out (-1 => none)
	FeeMsatRaw      uint64    `json:"fee_msat_raw,omitempty"` // if set: exact msat amount of the fee invoice (extremes)
	Open            OpenKnobs `json:"open"`
	Inv             InvKnobs  `json:"inv"`
	AnnounceDelayMs int       `json:"announce_delay_ms,omitempty"`
	AnnounceFirst   bool      `json:"announce_first,omitempty"` // announce before broadcasting
	Reannounce      int       `json:"reannounce,omitempty"`
	ConfirmNow      int       `json:"confirm_now,omitempty"` // mine this many blocks right after broadcasting
	FeeDest         string    `json:"fee_dest,omitempty"`    // "third": the fee invoice names another node as destination

	PayFee       bool        `json:"pay_fee,omitempty"`
	PayClaim     bool        `json:"pay_claim,omitempty"`
	ClaimDelayMs int         `json:"claim_delay_ms,omitempty"`
	Coop         string      `json:"coop,omitempty"`         // "", "good", "bad"
	CancelAfter  string      `json:"cancel_after,omitempty"` // "", "agreement", "opening"
	HoldHTLC     bool        `json:"hold_htlc,omitempty"`    // as payee: hold the claim HTLC
	FailHTLC     bool        `json:"fail_htlc,omitempty"`
	Spends       []SpendKnob `json:"spends,omitempty"`
	Requests     []ReqKnob   `json:"requests,omitempty"`
	Polls        []PollKnob  `json:"polls,omitempty"`
}

type OpenKnobs struct {
	AmountDelta   int64  `json:"amount_delta,omitempty"`
	Asset         string `json:"asset,omitempty"`     // "", "other", "forged"
	Explicit      bool   `json:"explicit,omitempty"`  // unblinded output
	BlindKey      string `json:"blind_key,omitempty"` // "", "wrong", "none"
	Keys          string `json:"keys,omitempty"`      // "", "swapped", "othertaker", "othermaker"
	Hash          string `json:"hash,omitempty"`      // "", "other"
	CSVDelta      int    `json:"csv_delta,omitempty"`
	Index         int    `json:"index,omitempty"`
	AnnounceDelta int    `json:"announce_delta,omitempty"` // announced script_out = real index + delta
	Decoy         string `json:"decoy,omitempty"`          // "", "sameamount", "samescript"
	Broadcast     string `json:"broadcast,omitempty"`      // "", "none", "hold" (stays in mempool)
	WrongTxid     bool   `json:"wrong_txid,omitempty"`     // announce another txid
}

type InvKnobs struct {
	AmountDeltaMsat int64  `json:"amount_delta_msat,omitempty"`
	Hash            string `json:"hash,omitempty"` // "", "other": invoice hash differs from the one locked in the script
	CLTV            int    `json:"cltv,omitempty"` // -1 => protocol default
	Dest            string `json:"dest,omitempty"` // "", "third"
	ExpirySec       int    `json:"expiry_sec,omitempty"`
	// routing hint carried by the claim invoice: "" none, "swapchan" names the swap channel
	// (with the payer as the hinted node), "other" names a channel that does not exist
	Hint      string `json:"hint,omitempty"`
	HintDelta uint32 `json:"hint_delta,omitempty"`
}

type SpendKnob struct {
	AtMs     int    `json:"at_ms"`
	Witness  string `json:"witness"` // see advSpend
	Sequence int64  `json:"sequence"`
	By       string `json:"by,omitempty"` // "", "third"
}

// PollKnob: a peer-sync message sent by the adversary (or the third party).
type PollKnob struct {
	AtMs    int    `json:"at_ms"`
	Request bool   `json:"request"`           // request_poll instead of poll
	Version uint64 `json:"version"`           // advertised protocol version
	Rate    int64  `json:"rate"`              // marker value for btc swap-out rate
	From    int    `json:"from,omitempty"`    // 0 = the adversarial peer, 2 = third party
	Garbage bool   `json:"garbage,omitempty"` // undecodable payload
}

type ReqKnob struct {
	AtMs    int    `json:"at_ms"`
	Type    string `json:"type"` // in, out
	Chain   string `json:"chain"`
	Amount  uint64 `json:"amount"`
	Version int    `json:"version"`
	Limit   int64  `json:"limit"`
	Net     string `json:"net,omitempty"` // "", "othernet", "otherasset", "both", "none"
	Scid    string `json:"scid,omitempty"`
	Pubkey  string `json:"pubkey,omitempty"`
	From    int    `json:"from,omitempty"` // 0 = the adversarial peer itself, 2 = third party
}

// advSwap is the adversary's view of one swap.
type advSwap struct {
	id       string
	swapIn   bool
	maker    bool
	chain    string
	version  int
	amount   uint64
	premium  int64
	key      *btcec.PrivateKey
	peerPub  string
	feeInv   *Invoice
	claimInv *Invoice
	claimPre string
	opening  *AdvOpening
	peerOpen *RecOpening
	scid     string
	paidPre  string
	neg      *Negotiated
}

// AdvOpening is what the adversary built and announced (ground truth for C01).
type AdvOpening struct {
	SwapID   string
	Chain    string
	TxID     string
	Hex      string
	AnnTxID  string
	AnnVout  uint32
	Payreq   string
	PayHash  string // hash locked in the script
	BlindKey string // as announced
	Neg      *Negotiated
	Valid    bool
	Why      string
	Vout     int
	InvoiceOK bool
}

type advPeer struct {
	a       *Adversary
	id      int
	real    int
	cfg     *AdvCfg
	swaps   map[string]*advSwap
	Opens   map[string]*AdvOpening // by swap id
	byHash  map[string]*advSwap
	keySeq  int
}

func newAdvPeer(a *Adversary, id int) *advPeer {
	cfg := a.w.Plan.AdvCfg
	if cfg == nil {
		cfg = &AdvCfg{Role: "maker", Chain: "btc"}
	}
	return &advPeer{a: a, id: id, real: 1 - id, cfg: cfg, swaps: map[string]*advSwap{}, Opens: map[string]*AdvOpening{}, byHash: map[string]*advSwap{}}
}

func (p *advPeer) w() *World { return p.a.w }

func (p *advPeer) newKey() *btcec.PrivateKey {
	p.keySeq++
	h := sha256.Sum256([]byte(fmt.Sprintf("verifsim-adv-%d-%d-%d", p.id, p.keySeq, p.w().Plan.Seed)))
	k, _ := btcec.PrivKeyFromBytes(h[:])
	return k
}

func (p *advPeer) pubkeyFor(k *btcec.PrivateKey) string {
	switch p.cfg.Pubkey {
	case "short":
		return hex.EncodeToString(k.PubKey().SerializeCompressed()[:32])
	case "notpoint":
		return "02" + strings.Repeat("ff", 32)
	}
	return hex.EncodeToString(k.PubKey().SerializeCompressed())
}

func (p *advPeer) scid() string {
	ch := p.w().Plan.Scn.Channels[0]
	sep := "x"
	if p.cfg.Colon {
		sep = ":"
	}
	return fmt.Sprintf("%d%s%d%s%d", ch.Block, sep, ch.Tx, sep, ch.Out)
}

func (p *advPeer) send(typ int, body interface{}) {
	b, _ := json.Marshal(body)
	p.w().Net.Send(p.id, p.w().Nodes[p.real].Pubkey, b, typ)
}

func (p *advPeer) netAsset(chain, knob string) (string, string) {
	network, asset := "regtest", ""
	if chain == "lbtc" {
		network, asset = "", p.w().liquidAssetHex()
	}
	switch knob {
	case "othernet":
		if chain == "btc" {
			network = "mainnet"
		} else {
			network = "regtest"
		}
	case "otherasset":
		if chain == "lbtc" {
			asset = "01" + strings.Repeat("42", 32)
		} else {
			asset = "01" + strings.Repeat("42", 32)
		}
	case "both":
		network, asset = "regtest", p.w().liquidAssetHex()
	case "none":
		network, asset = "", ""
	}
	return network, asset
}

func (p *advPeer) start() {
	w := p.w()
	cfg := p.cfg
	if cfg.Initiate {
		w.Sim.After(ms(max(cfg.StartMs, 1500)), "adv", "initiate", p.initiate)
	}
	for i := range cfg.Polls {
		pk := cfg.Polls[i]
		w.Sim.After(ms(pk.AtMs), "adv", fmt.Sprintf("poll#%d", i), func() { p.sendPoll(&pk) })
	}
	for i := range cfg.Requests {
		rk := cfg.Requests[i]
		w.Sim.After(ms(rk.AtMs), "adv", fmt.Sprintf("request#%d", i), func() { p.sendRequest(&rk) })
	}
}

func (p *advPeer) version() int {
	if p.cfg.Version == 0 {
		return 7
	}
	return p.cfg.Version
}

// initiate: swap-in if the adversary is the maker, swap-out if it is the taker.
func (p *advPeer) initiate() {
	cfg := p.cfg
	s := &advSwap{id: hex.EncodeToString(rand32()), chain: cfg.Chain, version: p.version(), amount: cfg.Amount, key: p.newKey(), scid: p.scid()}
	s.maker = cfg.Role == "maker"
	s.swapIn = s.maker
	p.swaps[s.id] = s
	network, asset := p.netAsset(cfg.Chain, cfg.Network)
	typ := MsgSwapOutRequest
	if s.swapIn {
		typ = MsgSwapInRequest
	}
	p.send(typ, map[string]interface{}{"protocol_version": s.version, "swap_id": s.id, "network": network, "asset": asset, "scid": s.scid, "amount": s.amount, "pubkey": p.pubkeyFor(s.key), "acceptable_premium": cfg.Limit})
}

func (p *advPeer) sendPoll(pk *PollKnob) {
	typ := MsgPoll
	if pk.Request {
		typ = MsgRequestPoll
	}
	from := p.id
	if pk.From == 2 {
		from = 2
	}
	body := map[string]interface{}{"version": pk.Version, "assets": []string{"btc", "lbtc"}, "peer_allowed": true, "btc_swap_out_premium_rate_ppm": pk.Rate, "lbtc_swap_out_premium_rate_ppm": 1000}
	b, _ := json.Marshal(body)
	if pk.Garbage {
		b = []byte("{not json")
	}
	p.w().Observe(&Obs{Node: from, Kind: "adv.poll", Msg: &MsgObs{From: from, To: p.real, Type: typ, Payload: b}, Num: pk.Rate})
	p.w().Net.Send(from, p.w().Nodes[p.real].Pubkey, b, typ)
}

func (p *advPeer) sendRequest(rk *ReqKnob) {
	id := hex.EncodeToString(rand32())
	network, asset := p.netAsset(rk.Chain, rk.Net)
	scid := rk.Scid
	if scid == "" {
		scid = p.scid()
	}
	pub := hex.EncodeToString(p.newKey().PubKey().SerializeCompressed())
	switch rk.Pubkey {
	case "short":
		pub = pub[:64]
	case "empty":
		pub = ""
	}
	typ := MsgSwapOutRequest
	if rk.Type == "in" {
		typ = MsgSwapInRequest
	}
	from := p.id
	if rk.From == 2 {
		from = 2
	}
	body := map[string]interface{}{"protocol_version": rk.Version, "swap_id": id, "network": network, "asset": asset, "scid": scid, "amount": rk.Amount, "pubkey": pub, "acceptable_premium": rk.Limit}
	b, _ := json.Marshal(body)
	p.w().Observe(&Obs{Node: from, Kind: "adv.request", Msg: &MsgObs{From: from, To: p.real, Type: typ, Payload: b, SwapID: id}})
	p.w().Net.Send(from, p.w().Nodes[p.real].Pubkey, b, typ)
}

func (p *advPeer) onMessage(from int, typ int, payload []byte) {
	if from != p.real {
		return
	}
	cfg := p.cfg
	w := p.w()
	switch typ {
	case MsgSwapOutRequest, MsgSwapInRequest:
		var q RecRequest
		if json.Unmarshal(payload, &q) != nil {
			return
		}
		s := &advSwap{id: q.SwapID, chain: "btc", version: q.ProtocolVersion, amount: q.Amount, key: p.newKey(), peerPub: q.Pubkey, scid: q.Scid}
		if q.Asset != "" {
			s.chain = "lbtc"
		}
		s.swapIn = typ == MsgSwapInRequest
		s.maker = !s.swapIn // responder of swap-out is maker; responder of swap-in is taker
		s.premium = cfg.Premium
		p.swaps[s.id] = s
		if cfg.CancelAfter == "request" {
			p.send(MsgCancel, map[string]interface{}{"swap_id": s.id, "message": "no"})
			return
		}
		if s.swapIn {
			// we are the taker of a swap-in
			p.send(MsgSwapInAgreement, map[string]interface{}{"protocol_version": p.version(), "swap_id": s.id, "pubkey": p.pubkeyFor(s.key), "premium": s.premium})
			return
		}
		// maker of a swap-out: fee invoice + agreement
		fee := cfg.FeeSat
		if fee == 0 {
			fee = 3500
		}
		payreq := ""
		if fee > 0 {
			pre := hex.EncodeToString(rand32())
			msat := uint64(fee) * 1000
			if cfg.FeeMsatRaw != 0 {
				msat = cfg.FeeMsatRaw
			}
			inv, err := w.LN.NewInvoice(p.id, msat, pre, s.id, swap.INVOICE_FEE, "fee", 600, 9)
			if err == nil {
				s.feeInv = inv
				payreq = inv.Payreq
				p.byHash[inv.Hash] = s
				if cfg.FeeDest == "third" {
					// a fee invoice of somebody else: same hash and amount, foreign destination
					payreq = EncodePayreq(inv.Hash, msat, 9, w.Nodes[2].Pubkey, inv.ExpiresAt.Milliseconds(), s.id)
				}
			}
		}
		p.send(MsgSwapOutAgreement, map[string]interface{}{"protocol_version": p.version(), "swap_id": s.id, "pubkey": p.pubkeyFor(s.key), "payreq": payreq, "premium": s.premium})
	case MsgSwapInAgreement:
		var a RecAgreement
		if json.Unmarshal(payload, &a) != nil {
			return
		}
		s := p.swaps[a.SwapID]
		if s == nil {
			p.send(MsgCancel, map[string]interface{}{"swap_id": a.SwapID, "message": "storm"})
			return
		}
		if !s.maker {
			return
		}
		s.peerPub = a.Pubkey
		s.premium = a.Premium
		if cfg.CancelAfter == "agreement" {
			p.send(MsgCancel, map[string]interface{}{"swap_id": s.id, "message": "no"})
			return
		}
		p.openAndAnnounce(s)
	case MsgSwapOutAgreement:
		var a RecAgreement
		if json.Unmarshal(payload, &a) != nil {
			return
		}
		s := p.swaps[a.SwapID]
		if s == nil {
			p.send(MsgCancel, map[string]interface{}{"swap_id": a.SwapID, "message": "storm"})
			return
		}
		if s.maker {
			return
		}
		s.peerPub = a.Pubkey
		s.premium = a.Premium
		if cfg.CancelAfter == "agreement" {
			p.send(MsgCancel, map[string]interface{}{"swap_id": s.id, "message": "no"})
			return
		}
		if cfg.PayFee {
			w.LN.AdvPay(p.id, a.Payreq, s.scid, func(pre string, ok bool) {})
		}
	case MsgOpeningTx:
		var o RecOpening
		if json.Unmarshal(payload, &o) != nil {
			return
		}
		s := p.swaps[o.SwapID]
		if s == nil || s.maker || s.peerOpen != nil {
			return
		}
		s.peerOpen = &o
		p.takerReact(s)
	case MsgCoopClose, MsgCancel:
		// nothing to do
	}
}

// takerReact: the real maker announced its opening transaction.
func (p *advPeer) takerReact(s *advSwap) {
	cfg := p.cfg
	w := p.w()
	if cfg.CancelAfter == "opening" {
		p.send(MsgCancel, map[string]interface{}{"swap_id": s.id, "message": "changed my mind"})
	}
	if cfg.PayClaim {
		w.Sim.After(ms(cfg.ClaimDelayMs+60000), "adv", "pay-claim", func() {
			w.LN.AdvPay(p.id, s.peerOpen.Payreq, s.scid, func(pre string, ok bool) {
				if ok {
					s.paidPre = pre
					w.Probe("adv:learned-preimage")
				}
			})
		})
	}
	switch cfg.Coop {
	case "good":
		w.Sim.After(ms(cfg.ClaimDelayMs+5000), "adv", "coop", func() {
			p.send(MsgCoopClose, map[string]interface{}{"swap_id": s.id, "message": "coop", "privkey": hex.EncodeToString(s.key.Serialize())})
		})
	case "bad":
		w.Sim.After(ms(cfg.ClaimDelayMs+5000), "adv", "coop-bad", func() {
			p.send(MsgCoopClose, map[string]interface{}{"swap_id": s.id, "message": "coop", "privkey": hex.EncodeToString(p.newKey().Serialize())})
		})
	}
	for i := range cfg.Spends {
		sk := cfg.Spends[i]
		w.Sim.After(ms(sk.AtMs), "adv", fmt.Sprintf("spend#%d %s", i, sk.Witness), func() { p.advSpend(s, &sk) })
	}
}

func (p *advPeer) onHTLC(pm *Payment, inv *Invoice) string {
	s := p.byHash[inv.Hash]
	if s != nil && s.claimInv == inv {
		if p.cfg.FailHTLC {
			return "fail"
		}
		if p.cfg.HoldHTLC {
			return "hold"
		}
	}
	if p.a.w.Sim.Now() >= inv.ExpiresAt || inv.State != "open" {
		return "fail"
	}
	return "settle"
}

// onInvoicePaid: one of the adversary's invoices was settled.
func (p *advPeer) onInvoicePaid(inv *Invoice) {
	s := p.byHash[inv.Hash]
	if s == nil {
		return
	}
	if s.feeInv == inv && s.maker && s.opening == nil {
		if p.cfg.CancelAfter == "fee" {
			return
		}
		p.openAndAnnounce(s)
	}
}

// ---------------------------------------------------------------------------
// hostile maker: build, broadcast and announce an opening transaction

func (p *advPeer) negotiated(s *advSwap) *Negotiated {
	n := &Negotiated{Chain: s.chain, Version: 7}
	myPub := hex.EncodeToString(s.key.PubKey().SerializeCompressed())
	if s.maker {
		n.MakerPub, n.TakerPub = p.pubkeyFor(s.key), s.peerPub
		_ = myPub
	} else {
		n.TakerPub, n.MakerPub = p.pubkeyFor(s.key), s.peerPub
	}
	if s.swapIn {
		n.OpeningSat = uint64(int64(s.amount) + s.premium)
		n.ClaimSat = s.amount
	} else {
		n.OpeningSat = s.amount
		n.ClaimSat = uint64(int64(s.amount) + s.premium)
	}
	if a := p.w().liquidAssetHex(); len(a) == 66 {
		b, _ := hex.DecodeString(a)
		n.PolicyAsset = b[1:]
	}
	return n
}

func (p *advPeer) openAndAnnounce(s *advSwap) {
	w := p.w()
	cfg := p.cfg
	k := cfg.Open
	neg := p.negotiated(s)
	s.neg = neg
	// claim invoice
	s.claimPre = hex.EncodeToString(rand32())
	preB, _ := hex.DecodeString(s.claimPre)
	hh := sha256.Sum256(preB)
	lockHash := hh[:]
	cltv := uint64(503)
	expiry := uint64(24 * 3600)
	if s.chain == "lbtc" {
		cltv, expiry = 29, 3600
	}
	if cfg.Inv.CLTV != 0 {
		cltv = uint64(cfg.Inv.CLTV)
		if cfg.Inv.CLTV < 0 {
			cltv = 0
		}
	}
	if cfg.Inv.ExpirySec > 0 {
		expiry = uint64(cfg.Inv.ExpirySec)
	}
	invAmt := uint64(int64(neg.ClaimSat*1000) + cfg.Inv.AmountDeltaMsat)
	inv, err := w.LN.NewInvoice(p.id, invAmt, s.claimPre, s.id, swap.INVOICE_CLAIM, "claim", expiry, cltv)
	if err != nil {
		return
	}
	s.claimInv = inv
	p.byHash[inv.Hash] = s
	payreq := inv.Payreq
	if cfg.Inv.Hash == "other" {
		// the script locks a different hash than the invoice pays
		other := sha256.Sum256([]byte("other-" + s.id))
		lockHash = other[:]
	}
	if k.Hash == "other" {
		other := sha256.Sum256([]byte("script-other-" + s.id))
		lockHash = other[:]
	}
	if cfg.Inv.Dest == "third" {
		payreq = EncodePayreq(inv.Hash, invAmt, int64(cltv), w.Nodes[2].Pubkey, inv.ExpiresAt.Milliseconds(), s.id)
	}
	switch cfg.Inv.Hint {
	case "swapchan":
		payreq = WithHints(payreq, RouteHint{Pubkey: w.Nodes[0].Pubkey, Scid: s.scid, Delta: cfg.Inv.HintDelta})
	case "other":
		payreq = WithHints(payreq, RouteHint{Pubkey: w.Nodes[2].Pubkey, Scid: "555x5x5", Delta: cfg.Inv.HintDelta})
	}
	// script keys
	takerPub, _ := hex.DecodeString(neg.TakerPub)
	makerPub := s.key.PubKey().SerializeCompressed()
	switch k.Keys {
	case "swapped":
		takerPub, makerPub = makerPub, takerPub
	case "othertaker":
		takerPub = p.newKey().PubKey().SerializeCompressed()
	case "othermaker":
		makerPub = p.newKey().PubKey().SerializeCompressed()
	}
	csv := uint32(int(ChainCSV(s.chain, 7)) + k.CSVDelta)
	script := RefOpeningScript(takerPub, makerPub, lockHash, csv)
	pk := p2wsh(script)
	amount := uint64(int64(neg.OpeningSat) + k.AmountDelta)
	var rawHex, txid, blindHex string
	realIdx := 0
	if s.chain == "btc" {
		rawHex, txid, realIdx = p.buildBtcOpening(pk, amount, neg.OpeningSat, k)
	} else {
		rawHex, txid, realIdx, blindHex = p.buildLiquidOpening(pk, amount, k, neg)
	}
	annTxid := txid
	if k.WrongTxid {
		annTxid = hex.EncodeToString(rand32())
	}
	annVout := uint32(max(0, realIdx+k.AnnounceDelta))
	op := &AdvOpening{SwapID: s.id, Chain: s.chain, TxID: txid, Hex: rawHex, AnnTxID: annTxid, AnnVout: annVout, Payreq: payreq, PayHash: hex.EncodeToString(lockHash), BlindKey: blindHex, Neg: neg}
	op.Valid, op.Vout, op.Why = OpeningTruth(neg, rawHex, inv.Hash, blindHex)
	op.InvoiceOK = invAmt == neg.ClaimSat*1000 && cfg.Inv.Dest == ""
	s.opening = op
	p.Opens[s.id] = op
	w.Observe(&Obs{Node: p.id, Kind: "adv.opening", Str: fmt.Sprintf("valid=%v why=%q invoiceok=%v", op.Valid, op.Why, op.InvoiceOK), Tx: &TxObs{Chain: s.chain, TxID: txid, Hex: rawHex, Kind: "adv-opening"}})
	if !op.Valid {
		w.Probe("adv:invalid-opening:" + strings.ReplaceAll(op.Why, " ", "_"))
	} else {
		w.Probe("adv:valid-opening")
	}
	broadcast := func() {
		c := w.BTC
		if s.chain == "lbtc" {
			c = w.LBTC
		}
		switch k.Broadcast {
		case "none":
			return
		case "hold":
			c.Hold(txid)
		}
		if _, err := c.Broadcast(p.id, rawHex, "adv-opening"); err != nil {
			w.Infraf("adversary opening rejected by the chain: %v", err)
			return
		}
		// a spendable swap output for later stages, when it really is one
		if op.Valid {
			so := &SwapOutput{TxID: txid, Vout: uint32(op.Vout), Owner: p.id, Amount: amount, Script: script, PkScript: pk, CSV: csv, TakerPub: neg.TakerPub, MakerPub: neg.MakerPub, PayHash: inv.Hash, AssetOK: true}
			if s.chain == "lbtc" {
				t, _ := transaction.NewTxFromHex(rawHex)
				so.ValueCommitment = t.Outputs[op.Vout].Value
				bk, _ := hex.DecodeString(blindHex)
				so.BlindPriv = bk
			}
			c.RegisterSwap(so)
		}
		if cfg.ConfirmNow > 0 {
			c.Mine(cfg.ConfirmNow)
		}
	}
	announce := func() {
		p.send(MsgOpeningTx, map[string]interface{}{"swap_id": s.id, "payreq": payreq, "tx_id": annTxid, "script_out": annVout, "blinding_key": blindHex})
	}
	if cfg.AnnounceFirst {
		announce()
		w.Sim.After(ms(cfg.AnnounceDelayMs+1000), "adv", "broadcast", broadcast)
	} else {
		broadcast()
		w.Sim.After(ms(cfg.AnnounceDelayMs), "adv", "announce", announce)
	}
	for i := 0; i < cfg.Reannounce; i++ {
		w.Sim.After(ms(cfg.AnnounceDelayMs)+time.Duration(i+1)*20*time.Second, "adv", "reannounce", announce)
	}
}

func (p *advPeer) buildBtcOpening(pk []byte, amount, negotiated uint64, k OpenKnobs) (string, string, int) {
	tx := wire.NewMsgTx(2)
	in := wire.NewTxIn(wire.NewOutPoint(ptrHash(randHash()), 0), nil, [][]byte{bytes.Repeat([]byte{0x30}, 71), p.newKey().PubKey().SerializeCompressed()})
	tx.AddTxIn(in)
	var outs []*wire.TxOut
	change := wire.NewTxOut(12345678, append([]byte{0x00, 0x14}, bytes.Repeat([]byte{7}, 20)...))
	outs = append(outs, change)
	switch k.Decoy {
	case "sameamount":
		h := sha256.Sum256([]byte("decoy"))
		outs = append([]*wire.TxOut{wire.NewTxOut(int64(negotiated), append([]byte{0x00, 0x20}, h[:]...))}, outs...)
	case "samescript":
		outs = append([]*wire.TxOut{wire.NewTxOut(546, pk)}, outs...)
	}
	idx := k.Index
	if idx < 0 {
		idx = 0
	}
	if idx > len(outs) {
		idx = len(outs)
	}
	outs = append(outs[:idx], append([]*wire.TxOut{wire.NewTxOut(int64(amount), pk)}, outs[idx:]...)...)
	for _, o := range outs {
		tx.AddTxOut(o)
	}
	var buf bytes.Buffer
	tx.Serialize(&buf)
	return hex.EncodeToString(buf.Bytes()), tx.TxHash().String(), idx
}

func (p *advPeer) buildLiquidOpening(pk []byte, amount uint64, k OpenKnobs, neg *Negotiated) (string, string, int, string) {
	blind := p.newKey()
	blindHex := hex.EncodeToString(blind.Serialize())
	policy := neg.PolicyAsset
	asset33 := append([]byte{0x01}, policy...)
	tx := transaction.NewTx(2)
	ph := randHash()
	tx.AddInput(transaction.NewTxInput(ph[:], 0))
	var swapOut *transaction.TxOutput
	switch {
	case k.Explicit:
		v, _ := elementsutil.ValueToBytes(amount)
		a := asset33
		if k.Asset == "other" {
			a = append([]byte{0x01}, bytes.Repeat([]byte{0x42}, 32)...)
		}
		swapOut = transaction.NewTxOutput(a, v, pk)
		eph := p.newKey()
		swapOut.Nonce = eph.PubKey().SerializeCompressed()
	case k.Asset == "other":
		swapOut, _ = BlindedOutput(amount, bytes.Repeat([]byte{0x42}, 32), pk, blind.PubKey().SerializeCompressed())
	case k.Asset == "forged":
		swapOut, _ = ForgedAssetOutput(amount, bytes.Repeat([]byte{0x42}, 32), policy, pk, blind.PubKey().SerializeCompressed())
	default:
		swapOut, _ = BlindedOutput(amount, policy, pk, blind.PubKey().SerializeCompressed())
	}
	if swapOut == nil {
		v, _ := elementsutil.ValueToBytes(amount)
		swapOut = transaction.NewTxOutput(asset33, v, pk)
	}
	switch k.BlindKey {
	case "wrong":
		blindHex = hex.EncodeToString(p.newKey().Serialize())
	case "none":
		blindHex = ""
	}
	var outs []*transaction.TxOutput
	cv, _ := elementsutil.ValueToBytes(12345678)
	outs = append(outs, transaction.NewTxOutput(asset33, cv, append([]byte{0x00, 0x14}, bytes.Repeat([]byte{7}, 20)...)))
	if k.Decoy == "samescript" {
		dv, _ := elementsutil.ValueToBytes(546)
		outs = append([]*transaction.TxOutput{transaction.NewTxOutput(asset33, dv, pk)}, outs...)
	}
	idx := k.Index
	if idx < 0 {
		idx = 0
	}
	if idx > len(outs) {
		idx = len(outs)
	}
	outs = append(outs[:idx], append([]*transaction.TxOutput{swapOut}, outs[idx:]...)...)
	fv, _ := elementsutil.ValueToBytes(300)
	outs = append(outs, transaction.NewTxOutput(asset33, fv, []byte{}))
	for _, o := range outs {
		tx.AddOutput(o)
	}
	rawHex, _ := tx.ToHex()
	return rawHex, tx.TxHash().String(), idx, blindHex
}

// ForgedAssetOutput commits to `committed` but builds the range proof message
// so that unblinding discloses `disclosed` (the attack of the repo's own
// "forged policy asset disclosure" test).
func ForgedAssetOutput(value uint64, committed, disclosed, script, blindPub []byte) (*transaction.TxOutput, error) {
	abf := rand32()
	fabf := rand32()
	vbf := rand32()
	ac, err := confidential.AssetCommitment(committed, abf)
	if err != nil {
		return nil, err
	}
	vc, err := confidential.ValueCommitment(value, ac, vbf)
	if err != nil {
		return nil, err
	}
	eph, _ := btcec.PrivKeyFromBytes(rand32())
	nonce, err := confidential.NonceHash(blindPub, eph.Serialize())
	if err != nil {
		return nil, err
	}
	var vbfa [32]byte
	copy(vbfa[:], vbf)
	rp, err := forgedRangeProof(value, nonce, disclosed, fabf, vbfa, vc, ac, script)
	if err != nil {
		return nil, err
	}
	return &transaction.TxOutput{Asset: ac, Value: vc, Script: script, Nonce: eph.PubKey().SerializeCompressed(), RangeProof: rp}, nil
}

// ---------------------------------------------------------------------------
// hostile spends of a real maker's output (C02)

func (p *advPeer) advSpend(s *advSwap, sk *SpendKnob) {
	w := p.w()
	if s.peerOpen == nil {
		return
	}
	c := w.BTC
	if s.chain != "btc" {
		return // script semantics are judged on the bitcoin engine (see DESIGN C02)
	}
	var so *SwapOutput
	for _, x := range c.SwapByTx(s.peerOpen.TxID) {
		so = x
	}
	if so == nil || so.SpentBy != "" {
		return
	}
	h, _ := chainhash.NewHashFromStr(so.TxID)
	tx := wire.NewMsgTx(2)
	in := wire.NewTxIn(wire.NewOutPoint(h, so.Vout), nil, nil)
	in.Sequence = uint32(sk.Sequence)
	tx.AddTxIn(in)
	tx.AddTxOut(wire.NewTxOut(int64(so.Amount)-2000, append([]byte{0x00, 0x14}, bytes.Repeat([]byte{9}, 20)...)))
	fetcher := txscript.NewCannedPrevOutputFetcher(so.PkScript, int64(so.Amount))
	hashes := txscript.NewTxSigHashes(tx, fetcher)
	sighash, err := txscript.CalcWitnessSigHash(so.Script, hashes, txscript.SigHashAll, tx, 0, int64(so.Amount))
	if err != nil {
		return
	}
	sign := func(k *btcec.PrivateKey) []byte {
		return append(ecdsa.Sign(k, sighash).Serialize(), byte(txscript.SigHashAll))
	}
	taker := s.key // the adversary is the taker here
	other := p.newKey()
	pre, _ := hex.DecodeString(s.paidPre)
	wrong32 := bytes.Repeat([]byte{0xaa}, 32)
	var wit [][]byte
	holds := map[string]bool{} // which secrets the attempt uses legitimately
	switch sk.Witness {
	case "preimage": // taker sig + real preimage (only if it paid)
		if len(pre) != 32 {
			return
		}
		wit = [][]byte{sign(taker), pre, {}, {}}
		holds["preimage"] = true
	case "wrong-preimage":
		wit = [][]byte{sign(taker), wrong32, {}, {}}
	case "short-preimage":
		wit = [][]byte{sign(taker), wrong32[:31], {}, {}}
	case "long-preimage":
		wit = [][]byte{sign(taker), append(wrong32, 1), {}, {}}
	case "empty-preimage":
		wit = [][]byte{sign(taker), {}, {}, {}}
	case "preimage-othersig":
		if len(pre) != 32 {
			pre = wrong32
		}
		wit = [][]byte{sign(other), pre, {}, {}}
	case "coop-taker-only": // taker + unrelated key instead of maker
		wit = [][]byte{sign(taker), sign(other), {}}
	case "coop-taker-twice":
		wit = [][]byte{sign(taker), sign(taker), {}}
	case "csv-taker":
		wit = [][]byte{sign(taker)}
	case "csv-other":
		wit = [][]byte{sign(other)}
	case "csv-empty":
		wit = [][]byte{{}}
	case "csv-one":
		wit = [][]byte{{1}}
	case "nosig-preimage":
		wit = [][]byte{{}, wrong32, {}, {}}
	case "script-only":
		wit = [][]byte{}
	case "taker-sig-as-maker": // put taker sig in the first CHECKSIG position
		wit = [][]byte{sign(taker), {1}}
	default:
		return
	}
	wit = append(wit, so.Script)
	tx.TxIn[0].Witness = wit
	var buf bytes.Buffer
	tx.Serialize(&buf)
	rawHex := hex.EncodeToString(buf.Bytes())
	by := p.id
	if sk.By == "third" {
		by = 2
	}
	depth := c.Confirmations(so.TxID)
	expect := "reject"
	if sk.Witness == "preimage" {
		expect = "accept"
	}
	_, err = c.Broadcast(by, rawHex, "adv-spend")
	got := "accept"
	if err != nil {
		got = "reject"
	}
	w.Probe("C02:spend-attempt:" + sk.Witness)
	es := ""
	if err != nil {
		es = err.Error()
	}
	w.Observe(&Obs{Node: by, Kind: "adv.spend", Str: fmt.Sprintf("%s|seq=%d|depth=%d|expect=%s|got=%s|%s", sk.Witness, sk.Sequence, depth, expect, got, es), Num: int64(depth)})
}
