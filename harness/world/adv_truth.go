package world

import (
	"bytes"
	"crypto/sha256"
	"encoding/hex"

	"github.com/btcsuite/btcd/txscript"
	"github.com/btcsuite/btcd/wire"
	"github.com/vulpemventures/go-elements/confidential"
	"github.com/vulpemventures/go-elements/transaction"
)

// Independent statement of the opening script, written from
// docs/peer-protocol.md ("Opening Transaction"):
//
//	<B> OP_CHECKSIG OP_NOTIF
//	  <B> OP_CHECKSIG OP_NOTIF
//	    OP_SIZE <20> OP_EQUALVERIFY OP_SHA256 <H> OP_EQUALVERIFY
//	  OP_ENDIF
//	  <A> OP_CHECKSIG
//	OP_ELSE
//	  <N> OP_CHECKSEQUENCEVERIFY
//	OP_ENDIF
//
// A = taker key, B = maker key, H = payment hash, N = CSV.
func RefOpeningScript(takerPub, makerPub, payHash []byte, csv uint32) []byte {
	s, _ := txscript.NewScriptBuilder().
		AddData(makerPub).AddOp(txscript.OP_CHECKSIG).AddOp(txscript.OP_NOTIF).
		AddData(makerPub).AddOp(txscript.OP_CHECKSIG).AddOp(txscript.OP_NOTIF).
		AddOp(txscript.OP_SIZE).AddData([]byte{0x20}).AddOp(txscript.OP_EQUALVERIFY).
		AddOp(txscript.OP_SHA256).AddData(payHash).AddOp(txscript.OP_EQUALVERIFY).
		AddOp(txscript.OP_ENDIF).
		AddData(takerPub).AddOp(txscript.OP_CHECKSIG).
		AddOp(txscript.OP_ELSE).
		AddInt64(int64(csv)).AddOp(txscript.OP_CHECKSEQUENCEVERIFY).
		AddOp(txscript.OP_ENDIF).Script()
	return s
}

func p2wsh(script []byte) []byte {
	h := sha256.Sum256(script)
	return append([]byte{0x00, 0x20}, h[:]...)
}

// ChainCSV is the CSV the protocol fixes per chain / protocol version.
func ChainCSV(chain string, version int) uint32 {
	if chain == "btc" {
		return 1008
	}
	if version == 6 {
		return 60
	}
	return 10080
}

// Negotiated is what both sides agreed on, as seen on the wire.
type Negotiated struct {
	Chain       string
	Version     int
	TakerPub    string
	MakerPub    string
	OpeningSat  uint64
	ClaimSat    uint64
	PolicyAsset []byte // 32 bytes, liquid
}

// OpeningTruth says whether a transaction really contains a correct opening
// output for the negotiated swap and invoice hash. It does not use any code
// of the system under test.
func OpeningTruth(neg *Negotiated, rawHex string, payHash string, blindKeyHex string) (ok bool, vout int, why string) {
	tp, err1 := hex.DecodeString(neg.TakerPub)
	mp, err2 := hex.DecodeString(neg.MakerPub)
	ph, err3 := hex.DecodeString(payHash)
	if err1 != nil || err2 != nil || err3 != nil || len(ph) != 32 {
		return false, -1, "bad keys or hash"
	}
	want := p2wsh(RefOpeningScript(tp, mp, ph, ChainCSV(neg.Chain, neg.Version)))
	if neg.Chain == "btc" {
		raw, err := hex.DecodeString(rawHex)
		if err != nil {
			return false, -1, "undecodable"
		}
		t := wire.NewMsgTx(2)
		if err := t.Deserialize(bytes.NewReader(raw)); err != nil {
			return false, -1, "undecodable"
		}
		why = "no output with the swap script"
		for i, o := range t.TxOut {
			if bytes.Equal(o.PkScript, want) {
				if uint64(o.Value) == neg.OpeningSat {
					return true, i, ""
				}
				why = "swap script present but wrong amount"
			}
		}
		return false, -1, why
	}
	t, err := transaction.NewTxFromHex(rawHex)
	if err != nil {
		return false, -1, "undecodable"
	}
	bk, err := hex.DecodeString(blindKeyHex)
	why = "no output with the swap script"
	for i, o := range t.Outputs {
		if !bytes.Equal(o.Script, want) {
			continue
		}
		if err != nil || len(bk) != 32 {
			why = "no usable blinding key"
			continue
		}
		ub, uerr := confidential.UnblindOutputWithKey(o, bk)
		if uerr != nil {
			why = "announced key does not unblind the output"
			continue
		}
		if !bytes.Equal(ub.Asset, neg.PolicyAsset) {
			why = "not the policy asset"
			continue
		}
		if o.IsConfidential() {
			ac, cerr := confidential.AssetCommitment(ub.Asset, ub.AssetBlindingFactor)
			if cerr != nil || !bytes.Equal(ac, o.Asset) {
				why = "disclosed asset does not match the commitment"
				continue
			}
		} else if len(o.Asset) != 33 || !bytes.Equal(o.Asset[1:], neg.PolicyAsset) {
			why = "explicit asset is not the policy asset"
			continue
		}
		if ub.Value != neg.OpeningSat {
			why = "wrong amount"
			continue
		}
		return true, i, ""
	}
	return false, -1, why
}
