package world

import (
	"context"
	"crypto/sha256"
	"encoding/hex"
	"fmt"
	"os"
	"path/filepath"
	"strings"
	"sync"
	"time"

	"github.com/btcsuite/btcd/btcec/v2"
	"github.com/btcsuite/btcd/chaincfg"
	"github.com/elementsproject/peerswap/clightning"
	"github.com/elementsproject/peerswap/lnd"
	"github.com/elementsproject/peerswap/wallet"
	"github.com/elementsproject/peerswap/log"
	"github.com/elementsproject/peerswap/messages"
	"github.com/elementsproject/peerswap/onchain"
	"github.com/elementsproject/peerswap/policy"
	"github.com/elementsproject/peerswap/premium"
	"github.com/elementsproject/peerswap/swap"
	"github.com/elementsproject/peerswap/txwatcher"
	"github.com/elementsproject/peerswap/verifsim/rt"
	"github.com/elementsproject/peerswap/version"
	"github.com/lightningnetwork/lnd/lnrpc"
	"github.com/vulpemventures/go-elements/network"
	"go.etcd.io/bbolt"
)

// Node is one participant: either real peerswap code wired like main.go, or
// the scripted adversary.
type Node struct {
	w      *World
	ID     int
	Pubkey string
	Kind   string
	Flavor string
	Real   bool

	Up      bool
	inc     int
	Boots   int
	BootErr string

	dbPath, policyPath string
	StoredVersion      string

	// per incarnation
	db        *bbolt.DB
	Svc       *swap.SwapService
	Pol       *policy.Policy
	PS        *premium.Setting
	RealStore swap.Store
	handlers  []func(peerId string, msgType string, payload []byte) error
	payCb     func(swapId string, invoiceType swap.InvoiceType)
	cancel    context.CancelFunc
	BtcOn     *onchain.BitcoinOnChain
	LiquidOn  *onchain.LiquidOnChain
	BtcW      swap.TxWatcher
	LbtcW     swap.TxWatcher
	inbox     []inMsg
	inboxEv   *rt.Event
	lnd       *fakeLnd  // tier 2: the simulated LND behind the real adapter
	lndInbox  *lndQueue // ... its custom-message subscription, if any
	lndClient *lnd.Client
	lwk        *fakeLwk // the simulated lwk behind the real LWK wallet, if selected
	lwkCreated bool     // lwk's own persistent state: the wallet exists / which signer is loaded
	lwkSigner  string
	elemLoaded map[string]bool // elementsd's own state: loaded wallets (the daemon outlives peerswap restarts)
	cln       *fakeCln // tier 3: the simulated lightningd behind the real clightning adapter
	clnClient *clightning.ClightningClient
	lndPending []inMsg
	lndSubs    []*lndQueue // custom-message subscriptions besides the swap service's
	lndSwapSubscribing bool
	Recovered bool
	LastHeight map[string]uint32 // last height served per chain
	servedLog  map[string][]servedAt
	heightByTask map[string]uint32
	lastQuery    map[string]time.Duration
	ext          nodeExtra // extension fields (see node_ext.go)

	// external services survive a crash of the peerswap process
	BtcWallet    *SimBtcWallet
	LiquidWallet *SimLiquidWallet

	mu       sync.Mutex // protects light-op counters
	lightSeq int
}

type inMsg struct {
	from    int
	typ     int
	payload []byte
	idx     int
}

func nodeKey(i int) *btcec.PrivateKey {
	h := sha256.Sum256([]byte(fmt.Sprintf("verifsim-node-%d", i)))
	k, _ := btcec.PrivKeyFromBytes(h[:])
	return k
}

// NodePubkey returns the node id (hex compressed pubkey) of node i.
func NodePubkey(i int) string {
	return hex.EncodeToString(nodeKey(i).PubKey().SerializeCompressed())
}

func newNode(w *World, id int) *Node {
	scn := &w.Plan.Scn
	n := &Node{w: w, ID: id, Pubkey: NodePubkey(id), Kind: scn.Kind[id], Flavor: scn.Flavor[id]}
	if id < 2 && scn.Adapter[id] == "lnd" {
		n.Flavor = "lnd"
	}
	if id < 2 && scn.Adapter[id] == "cln" {
		n.Flavor = "cln"
	}
	n.Real = n.Kind == "real"
	if n.Flavor == "" {
		n.Flavor = "cln"
	}
	dir := filepath.Join(w.Dir, fmt.Sprintf("node%d", id))
	os.MkdirAll(dir, 0o755)
	n.dbPath = filepath.Join(dir, "swaps")
	n.policyPath = filepath.Join(dir, "policy.conf")
	n.BtcWallet = newSimBtcWallet(n)
	n.LiquidWallet = newSimLiquidWallet(n)
	if n.Real {
		n.writePolicyFile()
	}
	return n
}

func (n *Node) writePolicyFile() {
	scn := &n.w.Plan.Scn
	var sb strings.Builder
	style := scn.PolicyFileStyle[n.ID]
	eq := "="
	if style&1 != 0 {
		eq = " = "
	}
	if scn.AcceptAll[n.ID] {
		fmt.Fprintf(&sb, "accept_all_peers%s1\n", eq)
	}
	if scn.MinSwapMsat[n.ID] != 0 {
		fmt.Fprintf(&sb, "min_swap_amount_msat%s%d\n", eq, scn.MinSwapMsat[n.ID])
	}
	if !scn.SwapsAllowed[n.ID] {
		fmt.Fprintf(&sb, "allow_new_swaps%sfalse\n", eq)
	}
	for _, p := range scn.Allowlist[n.ID] {
		fmt.Fprintf(&sb, "allowlisted_peers%s%s\n", eq, NodePubkey(p))
	}
	for _, p := range scn.Suspicious[n.ID] {
		fmt.Fprintf(&sb, "suspicious_peers%s%s\n", eq, NodePubkey(p))
	}
	s := sb.String()
	if style&2 != 0 {
		s = strings.TrimSuffix(s, "\n")
	}
	os.WriteFile(n.policyPath, []byte(s), 0o644)
}

// ---------------------------------------------------------------------------
// sim operations of a node's stubs

// op is a full sim operation: scheduling point, crash point, fault point.
func (n *Node) op(site string) *Fault {
	rt.YieldOp(site)
	n.checkAlive()
	return n.slow(site, n.w.faultLocked(n, site))
}

// slow: fault kind "slow" - the service answers correctly, but only after Ms of
// virtual time (a loaded or catching-up back-end); the world moves on meanwhile.
func (n *Node) slow(site string, f *Fault) *Fault {
	if f == nil || f.Kind != "slow" {
		return f
	}
	d := f.Ms
	if d <= 0 {
		d = 5000
	}
	rt.NewEvent("slow").WaitTimeout(site+".slow", ms(d))
	n.checkAlive()
	return nil
}

// lightOp is a polling read: no scheduling point unless the plan asks for it.
func (n *Node) lightOp(site string) *Fault {
	n.checkAlive()
	if strings.HasPrefix(site, "btc.rpc") {
		n.noteQuery("btc")
	} else if strings.HasPrefix(site, "lbtc.rpc") || strings.HasPrefix(site, "electrum.") {
		n.noteQuery("lbtc")
	}
	if r := n.w.Plan.Scn.RpcParkRate; r > 0 {
		n.mu.Lock()
		n.lightSeq++
		k := n.lightSeq
		n.mu.Unlock()
		if int(mix64(n.w.Plan.Seed^uint64(n.ID+1)*0x9e37, uint64(k))%1000) < r {
			rt.Yield(site)
			n.checkAlive()
		}
	}
	return n.slow(site, n.w.faultLocked(n, site))
}

func mix64(a, b uint64) uint64 {
	x := a ^ (b + 0x9e3779b97f4a7c15 + (a << 6) + (a >> 2))
	x ^= x >> 33
	x *= 0xff51afd7ed558ccd
	x ^= x >> 33
	return x
}

var faultMu sync.Mutex

func (w *World) faultLocked(n *Node, site string) *Fault {
	faultMu.Lock()
	defer faultMu.Unlock()
	return w.faultFor(n.ID, site)
}

// checkAlive ends the calling goroutine if it belongs to a dead incarnation.
func (n *Node) checkAlive() {
	t := rt.Self()
	if t == nil {
		return
	}
	if t.Dead() && !t.Dying() {
		rt.Yield("dead") // never returns: park() exits dead tasks
	}
}

// ---------------------------------------------------------------------------
// boot / crash

type simLogger struct{ n *Node }

func (l simLogger) Infof(format string, v ...any) {
	l.n.w.nodeLog(l.n, "I "+fmt.Sprintf(format, v...))
}
func (l simLogger) Debugf(format string, v ...any) {
	l.n.w.nodeLog(l.n, "D "+fmt.Sprintf(format, v...))
}

var logMu sync.Mutex

func (w *World) nodeLog(n *Node, s string) {
	logMu.Lock()
	defer logMu.Unlock()
	// which node is logging is not known to the global logger: attribute by task
	id := -1
	if t := rt.Self(); t != nil {
		id = t.Node
	}
	if id >= 0 && id < 2 {
		if len(w.NodeLogs[id]) < 4000 {
			w.NodeLogs[id] = append(w.NodeLogs[id], fmt.Sprintf("%09.3f %s", w.Sim.Now().Seconds(), s))
		}
	}
}

// Start schedules the node's main() as a task.
func (n *Node) Start() {
	if !n.Real {
		n.Up = true
		return
	}
	n.inc = n.w.Sim.Incarnation(n.ID)
	n.Boots++
	n.w.Sim.Spawn(n.ID, "main", n.boot)
}

func (n *Node) boot() {
	w := n.w
	scn := &w.Plan.Scn
	log.SetLogger(simLogger{n})
	fail := func(stage string, err error) {
		n.BootErr = stage + ": " + err.Error()
		w.Observe(&Obs{Node: n.ID, Inc: n.inc, Kind: "boot.fail", Str: n.BootErr})
	}
	n.op("boot")
	ctx, cancel := context.WithCancel(context.Background())
	n.cancel = cancel
	if scn.Component != "" {
		n.bootComponent(ctx)
		return
	}
	db, err := bbolt.Open(n.dbPath, 0o600, &bbolt.Options{NoSync: true, NoFreelistSync: true, Timeout: time.Second})
	if err != nil {
		fail("bbolt", err)
		return
	}
	n.db = db
	pol, err := policy.CreateFromFile(n.policyPath)
	if err != nil {
		fail("policy", err)
		return
	}
	n.Pol = pol
	realStore, err := swap.NewBboltStore(db)
	if err != nil {
		fail("store", err)
		return
	}
	n.RealStore = realStore
	reqStore, err := swap.NewRequestedSwapsStore(db)
	if err != nil {
		fail("reqstore", err)
		return
	}
	mesmgr := messages.NewManager()
	ps, err := premium.NewSetting(db)
	if err != nil {
		fail("premium", err)
		return
	}
	n.PS = ps
	if n.Boots == 1 && len(scn.PremiumPPM[n.ID]) == 4 {
		rates := scn.PremiumPPM[n.ID]
		set := func(a premium.AssetType, o premium.OperationType, v int64) {
			r, err := premium.NewPremiumRate(a, o, premium.NewPPM(v))
			if err == nil {
				ps.SetDefaultRate(ctx, r)
			}
		}
		set(premium.BTC, premium.SwapIn, rates[0])
		set(premium.BTC, premium.SwapOut, rates[1])
		set(premium.LBTC, premium.SwapIn, rates[2])
		set(premium.LBTC, premium.SwapOut, rates[3])
	}

	var ln swap.LightningClient = &lnStub{n}
	var msgr swap.Messenger = &messengerStub{n}
	var lndSide *lndShim
	var lndTxW swap.TxWatcher
	if scn.Adapter[n.ID] == "lnd" {
		var err error
		lndSide, lndTxW, err = n.bootLnd(ctx)
		if err != nil {
			fail("lnd", err)
			return
		}
		ln, msgr = lndSide, lndSide
	}
	var clnSide *clnShim
	if scn.Adapter[n.ID] == "cln" {
		var err error
		clnSide, err = n.bootCln(ctx)
		if err != nil {
			fail("cln", err)
			return
		}
		ln, msgr = clnSide, clnSide
	}

	var btcWatcher, lbtcWatcher swap.TxWatcher
	var btcWallet swap.Wallet
	var btcValidator swap.Validator
	var liquidWallet swap.Wallet
	var liquidValidator swap.Validator
	btcOn := scn.BitcoinOn[n.ID]
	liquidOn := scn.LiquidOn[n.ID]
	if btcOn && lndSide != nil {
		// tier 2: the lnd adapter is the Bitcoin wallet, lnd.TxWatcher the Bitcoin watcher
		btcWatcher = lndTxW
		btcWallet = lndSide
		btcValidator = n.BtcOn
	} else if btcOn {
		floor := onchain.LegacyFeeFloorSatPerKw
		n.BtcOn = onchain.NewBitcoinOnChain(&estimatorStub{n}, floor, floor, &chaincfg.RegressionNetParams)
		n.BtcWallet.onchain = n.BtcOn
		bw := txwatcher.NewBlockchainRpcTxWatcher(ctx, &rpcStub{n: n, c: w.BTC}, onchain.BitcoinMinConfs)
		btcWatcher = bw
		btcWallet = n.BtcWallet
		btcValidator = n.BtcOn
		if clnSide != nil {
			// tier 3: the CLN adapter is the Bitcoin wallet (cmd/peerswap-plugin/main.go)
			btcWallet = clnSide
			clnSide.c.SimSetChain(n.BtcOn)
		}
	}
	if liquidOn {
		var lwal wallet.Wallet = n.LiquidWallet
		if scn.RealLiquidWallet[n.ID] && scn.LiquidBackend[n.ID] == "lwk" {
			rw, err := n.bootLwkWallet(ctx)
			if err != nil {
				fail("lwk wallet", err)
				return
			}
			lwal = rw
		} else if scn.RealLiquidWallet[n.ID] {
			rw, err := n.bootElementsWallet()
			if err != nil {
				fail("elements wallet", err)
				return
			}
			lwal = rw
		}
		n.LiquidOn = onchain.NewLiquidOnChain(lwal, &network.Regtest)
		liquidWallet = n.LiquidOn
		liquidValidator = n.LiquidOn
		lw, err := n.newLiquidWatcher(ctx)
		if err != nil {
			fail("liquidwatcher", err)
			return
		}
		lbtcWatcher = lw
	}
	if btcWatcher != nil {
		btcWatcher = &watchShim{n: n, chain: "btc", inner: btcWatcher}
	}
	if lbtcWatcher != nil {
		lbtcWatcher = &watchShim{n: n, chain: "lbtc", inner: lbtcWatcher}
	}
	n.BtcW, n.LbtcW = btcWatcher, lbtcWatcher

	store := &storeShim{n: n, real: realStore}
	services := swap.NewSwapServices(store, reqStore, ln, msgr, mesmgr, pol,
		btcOn, btcWallet, btcValidator, btcWatcher,
		liquidOn, liquidWallet, liquidValidator, lbtcWatcher, ps)
	svc := swap.NewSwapService(services)
	n.Svc = svc

	if liquidOn {
		if err := lbtcWatcher.StartWatchingTxs(); err != nil {
			fail("liquid StartWatchingTxs", err)
			return
		}
	}
	if btcOn {
		if err := btcWatcher.StartWatchingTxs(); err != nil {
			fail("bitcoin StartWatchingTxs", err)
			return
		}
	}
	if err := svc.Start(); err != nil {
		fail("start", err)
		return
	}
	rt.ReleaseLineage() // race builds: what the environment starts from now on is ordered after this initialisation
	n.Up = true
	if n.Flavor == "lnd" && n.lnd == nil {
		n.inboxEv = rt.NewEvent("inbox")
		rt.Go(n.dispatchLoop)
	}
	vs, err := version.NewVersionService(db)
	if err != nil {
		fail("version", err)
		return
	}
	w.Observe(&Obs{Node: n.ID, Inc: n.inc, Kind: "boot.preupgrade"})
	if err := vs.SafeUpgrade(svc); err != nil {
		fail("safeupgrade", err)
		n.Up = false
		return
	}
	w.Observe(&Obs{Node: n.ID, Inc: n.inc, Kind: "boot.upgraded"})
	if err := svc.RecoverSwaps(); err != nil {
		fail("recover", err)
		return
	}
	// main.go of the lnd daemon subscribes to custom messages only now
	if err := n.startLndListening(); err != nil {
		fail("lnd listener", err)
		return
	}
	n.Recovered = true
	w.Observe(&Obs{Node: n.ID, Inc: n.inc, Kind: "boot.done"})
	if scn.PeerSync {
		n.startPeersync(ctx, pol, ps)
	}
}

// Crash kills the peerswap process of this node (scheduler context).
func (n *Node) Crash(restartMs int) {
	w := n.w
	if !n.Real || !n.Up && n.db == nil {
		return
	}
	n.Up = false
	n.Recovered = false
	if n.cancel != nil {
		n.cancel()
		// the goroutines woken by the cancelled context park before the crash is carried out
		w.Sim.Settle()
	}
	w.Sim.Crash(n.ID)
	n.closeFiles()
	n.handlers = nil
	n.payCb = nil
	n.inbox = nil
	if n.lnd != nil {
		n.lnd.release()
	}
	n.lnd, n.lndInbox, n.lndClient, n.lndPending, n.lndSubs = nil, nil, nil, nil, nil
	n.cln, n.clnClient, n.lwk = nil, nil, nil
	n.Svc = nil
	w.Observe(&Obs{Node: n.ID, Inc: n.inc, Kind: "crash"})
	if restartMs >= 0 {
		w.Sim.After(ms(restartMs), "restart", fmt.Sprintf("restart n%d", n.ID), func() {
			if n.db != nil || n.Up {
				return
			}
			w.Observe(&Obs{Node: n.ID, Kind: "restart"})
			n.Start()
		})
	}
}

func (n *Node) closeFiles() {
	if n.db != nil {
		n.db.Close()
		n.db = nil
	}
	n.closePeersync()
}

// ---------------------------------------------------------------------------
// message delivery

func (n *Node) deliver(from int, typ int, payload []byte, idx int) {
	w := n.w
	if !n.Real {
		if w.Adv != nil {
			w.Adv.onMessage(n.ID, from, typ, payload)
		}
		return
	}
	if !n.Up {
		w.Probe("net:lost-node-down")
		w.Observe(&Obs{Node: n.ID, Kind: "deliver.lost", Msg: &MsgObs{From: from, To: n.ID, Type: typ, Payload: payload, Idx: idx, SwapID: swapIDOf(payload)}})
		return
	}
	w.Observe(&Obs{Node: n.ID, Inc: n.inc, Kind: "deliver", Msg: &MsgObs{From: from, To: n.ID, Type: typ, Payload: payload, Idx: idx, SwapID: swapIDOf(payload)}})
	poll := typ == MsgPoll || typ == MsgRequestPoll
	if poll && !n.ext.psReal {
		n.deliverPeersync(from, typ, payload)
		return
	}
	if poll && n.clnClient != nil {
		// tier 3 with peer-sync's own CLN adapter: the custommsg hook gets every message, the
		// adapter's handler is one of the plugin's message handlers
		c := n.clnClient
		w.Sim.Spawn(n.ID, fmt.Sprintf("poll#%d", idx), func() {
			n.checkAlive()
			rt.Yield("deliver")
			c.SimDeliver(w.Nodes[from].Pubkey, typ, payload)
		})
		return
	}
	if n.lnd != nil {
		// tier 2: lnd hands custom messages to whoever is subscribed right now (every subscriber
		// gets every message: the swap service's listener, peer-sync's own adapter)
		n.mu.Lock()
		q := n.lndInbox
		subs := append([]*lndQueue(nil), n.lndSubs...)
		n.mu.Unlock()
		if q == nil && len(subs) == 0 {
			w.Probe("lnd:custom-message-without-subscriber-lost")
			return
		}
		pk, _ := hex.DecodeString(w.Nodes[from].Pubkey)
		if q != nil {
			n.lndPending = append(n.lndPending, inMsg{from, typ, payload, idx})
			q.push(&lnrpc.CustomMessage{Peer: pk, Type: uint32(typ), Data: payload})
		} else if !poll {
			w.Probe("lnd:custom-message-without-subscriber-lost")
		}
		for _, s := range subs {
			s.push(&lnrpc.CustomMessage{Peer: pk, Type: uint32(typ), Data: payload})
		}
		return
	}
	if n.Flavor == "lnd" {
		// lnd's MessageListener handles custom messages one at a time
		n.inbox = append(n.inbox, inMsg{from, typ, payload, idx})
		n.inboxEv.Fire()
		return
	}
	m := inMsg{from, typ, payload, idx}
	w.Sim.Spawn(n.ID, fmt.Sprintf("msg#%d", idx), func() { n.handle(m) })
}

func (n *Node) handle(m inMsg) {
	n.checkAlive()
	rt.Yield("deliver")
	n.w.Observe(&Obs{Node: n.ID, Inc: n.inc, Kind: "handling", Num: int64(m.idx)})
	hs := n.handlers
	if c := n.clnClient; c != nil {
		// tier 3: lightningd's custommsg hook calls the plugin
		c.SimDeliver(n.w.Nodes[m.from].Pubkey, m.typ, m.payload)
		hs = nil
	}
	for _, h := range hs {
		err := h(n.w.Nodes[m.from].Pubkey, messages.MessageTypeToHexString(messages.MessageType(m.typ)), m.payload)
		_ = err
	}
	n.w.Observe(&Obs{Node: n.ID, Inc: n.inc, Kind: "handled", Num: int64(m.idx)})
}

func (n *Node) dispatchLoop() {
	for {
		for len(n.inbox) == 0 {
			n.inboxEv = rt.NewEvent("inbox")
			n.inboxEv.Wait("inbox")
			n.checkAlive()
		}
		m := n.inbox[0]
		n.inbox = n.inbox[1:]
		n.handle(m)
	}
}

// ---------------------------------------------------------------------------
// inspection helpers (scheduler context, at quiescent points)

// Swaps lists persisted swaps of the node (nil if the db is closed).
func (n *Node) Swaps() []*swap.SwapStateMachine {
	if n.RealStore == nil || n.db == nil {
		return nil
	}
	l, err := n.RealStore.ListAll()
	if err != nil {
		return nil
	}
	return l
}

// RawRecord reads the persisted record bytes of a swap.
func (n *Node) RawRecord(id string) []byte {
	if n.db == nil {
		return nil
	}
	var out []byte
	key, _ := hex.DecodeString(id)
	n.db.View(func(tx *bbolt.Tx) error {
		b := tx.Bucket([]byte("swaps"))
		if b == nil {
			return nil
		}
		v := b.Get(key)
		if v != nil {
			out = append([]byte(nil), v...)
		}
		return nil
	})
	return out
}

// AllRaw returns all persisted swap records keyed by id.
func (n *Node) AllRaw() map[string][]byte {
	out := map[string][]byte{}
	if n.db == nil {
		return out
	}
	n.db.View(func(tx *bbolt.Tx) error {
		b := tx.Bucket([]byte("swaps"))
		if b == nil {
			return nil
		}
		return b.ForEach(func(k, v []byte) error {
			out[hex.EncodeToString(k)] = append([]byte(nil), v...)
			return nil
		})
	})
	return out
}
