package world

import (
	"context"
	"fmt"
	"os"
	"sort"
	"strings"

	"github.com/elementsproject/peerswap/policy"
	"github.com/elementsproject/peerswap/verifsim/rt"
)

// C25 component simulation: the real policy.Policy on a real file, driven by
// an operator script, checked against RefPolicy after every step.

type polView struct {
	Allow, Susp []string
	AcceptAll   bool
	Enabled     bool
	Min         uint64
}

func viewOf(p policy.Policy) polView {
	v := polView{AcceptAll: p.AcceptAllPeers, Enabled: p.AllowNewSwaps, Min: p.MinSwapAmountMsat}
	v.Allow = uniqSorted(p.PeerAllowlist)
	v.Susp = uniqSorted(p.SuspiciousPeerList)
	return v
}

func uniqSorted(in []string) []string {
	m := map[string]bool{}
	for _, s := range in {
		m[s] = true
	}
	var out []string
	for s := range m {
		out = append(out, s)
	}
	sort.Strings(out)
	return out
}

func (v polView) String() string {
	return fmt.Sprintf("allow=%v susp=%v acceptall=%v enabled=%v min=%d", short(v.Allow), short(v.Susp), v.AcceptAll, v.Enabled, v.Min)
}

func short(l []string) []string {
	var o []string
	for _, s := range l {
		if len(s) > 10 {
			s = s[:10]
		}
		o = append(o, s)
	}
	return o
}

func (v polView) eq(o polView) bool { return v.String() == o.String() && fmt.Sprint(v.Allow) == fmt.Sprint(o.Allow) && fmt.Sprint(v.Susp) == fmt.Sprint(o.Susp) }

func refToView(r *RefPolicy) polView {
	v := polView{AcceptAll: r.AcceptAll, Enabled: r.Enabled, Min: r.MinMsat}
	for k := range r.Allow {
		v.Allow = append(v.Allow, k)
	}
	for k := range r.Suspicious {
		v.Susp = append(v.Susp, k)
	}
	sort.Strings(v.Allow)
	sort.Strings(v.Susp)
	return v
}

func (n *Node) bootPolicyComp(ctx context.Context) {
	w := n.w
	ops := w.Plan.Comp
	if len(ops) == 0 || ops[0].Kind != "file" {
		return
	}
	os.WriteFile(n.policyPath, []byte(ops[0].S), 0o644)
	fileStyle := ops[0].Arg
	pol, err := policy.CreateFromFile(n.policyPath)
	if err != nil {
		w.Observe(&Obs{Node: n.ID, Kind: "policy.loadfail", Str: err.Error()})
		w.Probe("C25:initial-file-rejected")
		n.Up, n.Recovered = true, true
		return
	}
	n.Pol = pol
	// the reference starts from the code's own first load of the file
	first := viewOf(pol.Get())
	ref := &RefPolicy{AcceptAll: first.AcceptAll, Enabled: first.Enabled, MinMsat: first.Min, Allow: map[string]bool{}, Suspicious: map[string]bool{}}
	for _, a := range first.Allow {
		ref.Allow[a] = true
	}
	for _, s := range first.Susp {
		ref.Suspicious[s] = true
	}
	n.Up, n.Recovered = true, true
	w.Observe(&Obs{Node: n.ID, Kind: "boot.done"})
	check := func(step int, op CompOp, what string) {
		mem := viewOf(n.Pol.Get())
		want := refToView(ref)
		if !mem.eq(want) {
			w.Violate("C25", "memory-differs-after:"+op.Kind+":"+fileStyle, "after step %d (%s %s => %s) the in-memory policy is {%s}, the reference says {%s}", step, op.Kind, shortArg(op), what, mem, want)
			return
		}
		fresh, err := policy.CreateFromFile(n.policyPath)
		if err != nil {
			w.Violate("C25", "file-unloadable-after:"+op.Kind+":"+fileStyle, "after step %d (%s) the policy file no longer loads: %v", step, op.Kind, err)
			return
		}
		fv := viewOf(fresh.Get())
		if !fv.eq(want) {
			b, _ := os.ReadFile(n.policyPath)
			w.Violate("C25", "reload-differs-after:"+op.Kind+":"+fileStyle, "after step %d (%s %s => %s) a fresh load of the policy file gives {%s}, the reference says {%s}; file:\n%s", step, op.Kind, shortArg(op), what, fv, want, string(b))
		}
	}
	// edits made to the file behind the daemon's back (by the operator's editor);
	// they take effect when the code next reloads the file
	var pendingEdits []func(*RefPolicy)
	applyPending := func() {
		for _, f := range pendingEdits {
			f(ref)
		}
		pendingEdits = nil
	}
	for i, op := range ops[1:] {
		rt.Yield("policy-op")
		n.checkAlive()
		if strings.HasPrefix(op.Kind, "edit-") {
			b, _ := os.ReadFile(n.policyPath)
			content := string(b)
			if len(content) > 0 && !strings.HasSuffix(content, "\n") {
				content += "\n"
			}
			switch op.Kind {
			case "edit-min":
				content = dropKey(content, "min_swap_amount_msat") + fmt.Sprintf("min_swap_amount_msat=%d\n", op.N)
				v := uint64(op.N)
				pendingEdits = append(pendingEdits, func(r *RefPolicy) { r.MinMsat = v })
			case "edit-acceptall":
				content = dropKey(content, "accept_all_peers") + fmt.Sprintf("accept_all_peers=%v\n", op.N == 1)
				v := op.N == 1
				pendingEdits = append(pendingEdits, func(r *RefPolicy) { r.AcceptAll = v })
			case "edit-allow":
				pk := NodePubkey(op.Peer)
				content += "allowlisted_peers=" + pk + "\n"
				pendingEdits = append(pendingEdits, func(r *RefPolicy) { r.Allow[pk] = true })
			}
			os.WriteFile(n.policyPath, []byte(content), 0o644)
			w.Probe("C25:op:" + op.Kind)
			continue
		}
		peer := op.S
		if peer == "" {
			peer = NodePubkey(op.Peer)
		}
		var err error
		expectOK := true
		switch op.Kind {
		case "policy-allow":
			expectOK = ref.Expect(op.Kind, peer)
			err = n.Pol.AddToAllowlist(peer)
		case "policy-unallow":
			expectOK = ref.Expect(op.Kind, peer)
			err = n.Pol.RemoveFromAllowlist(peer)
		case "policy-suspect":
			expectOK = ref.Expect(op.Kind, peer)
			err = n.Pol.AddToSuspiciousPeerList(peer)
		case "policy-unsuspect":
			expectOK = ref.Expect(op.Kind, peer)
			err = n.Pol.RemoveFromSuspiciousPeerList(peer)
		case "policy-disable":
			err = n.Pol.DisableSwaps()
		case "policy-enable":
			err = n.Pol.EnableSwaps()
		case "policy-reload":
			err = n.Pol.ReloadFile()
		case "restart":
			var np *policy.Policy
			np, err = policy.CreateFromFile(n.policyPath)
			if err == nil {
				n.Pol = np
			}
		default:
			continue
		}
		w.Probe("C25:op:" + op.Kind)
		what := "ok"
		if err != nil {
			what = "error: " + err.Error()
		}
		reloaded := false
		switch op.Kind {
		case "policy-reload", "restart":
			reloaded = err == nil
		case "policy-disable":
			reloaded = err == nil && ref.Enabled
		case "policy-enable":
			reloaded = err == nil && !ref.Enabled
		default:
			reloaded = err == nil && expectOK
		}
		if len(pendingEdits) > 0 && !reloaded && (op.Kind == "policy-disable" || op.Kind == "policy-enable") {
			// a no-op enable/disable does not re-read the file; whether it would have been a
			// no-op depends on the pending edit, so skip judging until the next real reload
		}
		if reloaded {
			applyPending()
		}
		if err == nil && expectOK {
			ref.Apply(op.Kind, peer)
		}
		if len(pendingEdits) > 0 {
			continue // memory legitimately lags behind the edited file until the next reload
		}
		if err == nil && !expectOK {
			w.Violate("C25", "accepted-invalid:"+op.Kind+":"+fileStyle, "step %d: %s %s should have been rejected (invalid key or duplicate/absent entry) but succeeded", i+1, op.Kind, shortArg(op))
		}
		if err != nil && expectOK {
			w.Violate("C25", "rejected-valid:"+op.Kind+":"+fileStyle, "step %d: %s %s failed: %v", i+1, op.Kind, shortArg(op), err)
		}
		w.Observe(&Obs{Node: n.ID, Kind: "policy.op", Str: op.Kind + "|" + what, Num: int64(i + 1)})
		check(i+1, op, what)
	}
	w.Probe("C25:script-completed")
}

func shortArg(op CompOp) string {
	s := op.S
	if s == "" {
		s = NodePubkey(op.Peer)
	}
	if len(s) > 12 {
		s = s[:12] + "…"
	}
	return s
}

func (w *World) scheduleComp() {}

func init() { _ = strings.TrimSpace }

// dropKey removes every line setting key from an ini text.
func dropKey(content, key string) string {
	var out []string
	for _, l := range strings.Split(content, "\n") {
		k, _, found := strings.Cut(l, "=")
		if found && strings.TrimSpace(k) == key {
			continue
		}
		out = append(out, l)
	}
	return strings.Join(out, "\n")
}
