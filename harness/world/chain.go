package world

import (
	"crypto/sha256"
	"encoding/hex"
	"errors"
	"fmt"
	"time"
)

// SimChain is a Bitcoin-like chain: best chain of blocks, mempool, spent set.
// Spends of registered swap outputs are verified (script + relative lock).
type SimChain struct {
	w            *World
	Name         string
	Base         uint32 // height of blocks[0]
	blocks       []*Block
	Txs          map[string]*ChainTx
	mempool      []string
	confAt       map[string]uint32 // txid -> height (best chain)
	spentBy      map[string]string // "txid:vout" -> spending txid (mempool or chain)
	fork         int
	Swaps        map[string]*SwapOutput // "txid:vout" -> registered swap output
	stalled      bool
	History      []chainSnap // chain state after every change (component sims)
	minedAt      []time.Duration
	subs         []headerSub
	byScriptHash map[string][]string // electrum script hash -> txids paying to it
	held         map[string]bool     // txids the miner leaves in the mempool
	blockSubs    []func()
}

type Block struct {
	Hash   string
	Height uint32
	Txs    []string
}

type ChainTx struct {
	ID         string
	Hex        string
	Ins        []string // outpoints spent
	NOut       int
	By         int    // node that broadcast it (-1 unknown)
	Kind       string // opening, spend, other
	OutScripts [][]byte
}

// SwapOutput is ground truth about an opening output, known by construction.
type SwapOutput struct {
	Chain           string
	TxID            string
	Vout            uint32
	Owner           int // maker node id
	Amount          uint64
	Script          []byte // witness script
	PkScript        []byte
	CSV             uint32
	SwapID          string
	TakerPub        string
	MakerPub        string
	PayHash         string
	BlindPriv       []byte // liquid: blinding private key the output was blinded to
	ValueCommitment []byte // liquid: serialized value (explicit or commitment) for sighash
	Explicit        bool
	AssetOK         bool // liquid: output really carries the policy asset
	SpentBy         string
	SpendPath       string
	ScriptMismatch  bool // tier 2: the adapter asked the wallet to pay an address that is not P2WSH of the swap script
}

func newSimChain(w *World, name string, base uint32) *SimChain {
	c := &SimChain{w: w, Name: name, Base: base, Txs: map[string]*ChainTx{}, confAt: map[string]uint32{}, spentBy: map[string]string{}, Swaps: map[string]*SwapOutput{}, byScriptHash: map[string][]string{}}
	c.blocks = []*Block{{Hash: c.mkHash(base, nil), Height: base}}
	return c
}

func (c *SimChain) mkHash(h uint32, txs []string) string {
	s := sha256.New()
	fmt.Fprintf(s, "%s/%d/%d/", c.Name, h, c.fork)
	for _, t := range txs {
		s.Write([]byte(t))
	}
	return hex.EncodeToString(s.Sum(nil))
}

func (c *SimChain) Height() uint32 { return c.Base + uint32(len(c.blocks)) - 1 }

func (c *SimChain) BlockHash(h uint32) (string, error) {
	if h < c.Base || h > c.Height() {
		return "", errors.New("Block height out of range")
	}
	return c.blocks[h-c.Base].Hash, nil
}

func (c *SimChain) BestHash() string { return c.blocks[len(c.blocks)-1].Hash }

// Confirmations of a transaction in the best chain (0 = mempool / unknown).
func (c *SimChain) Confirmations(txid string) uint32 {
	h, ok := c.confAt[txid]
	if !ok {
		return 0
	}
	return c.Height() - h + 1
}

func (c *SimChain) ConfHeight(txid string) (uint32, bool) { h, ok := c.confAt[txid]; return h, ok }

func (c *SimChain) InMempool(txid string) bool {
	for _, t := range c.mempool {
		if t == txid {
			return true
		}
	}
	return false
}

// TxOut mimics gettxout (include_mempool=true): nil if unknown or spent.
func (c *SimChain) TxOut(txid string, vout uint32) (conf uint32, ok bool) {
	tx := c.Txs[txid]
	if tx == nil || int(vout) >= tx.NOut {
		return 0, false
	}
	if _, conf := c.confAt[txid]; !conf && !c.InMempool(txid) {
		return 0, false
	}
	if _, spent := c.spentBy[fmt.Sprintf("%s:%d", txid, vout)]; spent {
		return 0, false
	}
	return c.Confirmations(txid), true
}

// TxInBlock mimics getrawtransaction <txid> <blockhash>.
func (c *SimChain) TxInBlock(txid, blockHash string) (string, bool) {
	for _, b := range c.blocks {
		if b.Hash == blockHash {
			for _, t := range b.Txs {
				if t == txid {
					return c.Txs[txid].Hex, true
				}
			}
			return "", false
		}
	}
	return "", false
}

// accept puts a parsed transaction into the mempool after checking inputs.
func (c *SimChain) accept(tx *ChainTx) error {
	if _, ok := c.Txs[tx.ID]; ok {
		if _, conf := c.confAt[tx.ID]; conf || c.InMempool(tx.ID) {
			return errors.New("transaction already in block chain or mempool")
		}
	}
	for _, in := range tx.Ins {
		if by, spent := c.spentBy[in]; spent && by != tx.ID {
			return fmt.Errorf("bad-txns-inputs-missingorspent (%s spent by %s)", in, by)
		}
	}
	for _, in := range tx.Ins {
		if so := c.Swaps[in]; so != nil {
			path, err := c.verifySwapSpend(tx, so)
			if err != nil {
				return err
			}
			so.SpentBy = tx.ID
			so.SpendPath = path
		}
	}
	for _, in := range tx.Ins {
		c.spentBy[in] = tx.ID
	}
	if _, known := c.Txs[tx.ID]; !known {
		for _, sc := range tx.OutScripts {
			if len(sc) > 0 {
				sh := electrumScriptHash(sc)
				c.byScriptHash[sh] = append(c.byScriptHash[sh], tx.ID)
			}
		}
	}
	c.Txs[tx.ID] = tx
	c.mempool = append(c.mempool, tx.ID)
	return nil
}

// Mine adds n blocks; every mempool transaction confirms in the first one.
func (c *SimChain) Mine(n int) {
	for i := 0; i < n; i++ {
		h := c.Height() + 1
		var txs, keep []string
		for _, t := range c.mempool {
			if c.held[t] {
				keep = append(keep, t)
			} else {
				txs = append(txs, t)
			}
		}
		c.mempool = keep
		for _, t := range txs {
			c.confAt[t] = h
		}
		c.blocks = append(c.blocks, &Block{Hash: c.mkHash(h, txs), Height: h, Txs: txs})
		c.minedAt = append(c.minedAt, c.w.Sim.Now())
	}
	c.snapshot()
	c.w.Observe(&Obs{Node: -1, Kind: "block", Str: c.Name, Num: int64(c.Height())})
	c.notifyHeaders()
	for _, fn := range c.blockSubs {
		fn()
	}
}

// onBlock registers a listener called after every change of the best chain
// (the simulated lnd's chain notifier).
func (c *SimChain) onBlock(fn func()) { c.blockSubs = append(c.blockSubs, fn) }

// Reorg replaces the top `depth` blocks by depth+1 new ones; transactions of
// the replaced blocks return to the mempool and confirm again in the first
// new block (delay=false) or in the second (delay=true).
func (c *SimChain) Reorg(depth int, delay bool) {
	if depth <= 0 || depth >= len(c.blocks) {
		return
	}
	c.fork++
	var back []string
	for i := 0; i < depth; i++ {
		b := c.blocks[len(c.blocks)-1]
		c.blocks = c.blocks[:len(c.blocks)-1]
		for _, t := range b.Txs {
			delete(c.confAt, t)
		}
		back = append(b.Txs, back...)
	}
	c.mempool = append(back, c.mempool...)
	c.w.Probe("chain:reorg")
	if delay {
		keep := c.mempool
		c.mempool = nil
		c.Mine(1)
		c.mempool = keep
		c.Mine(depth)
	} else {
		c.Mine(depth + 1)
	}
}

// ReorgHold replaces the top `depth` blocks by depth+1 new ones that do not
// contain the transactions of the replaced blocks: those wait in the mempool
// and confirm in whatever block comes next.
func (c *SimChain) ReorgHold(depth int) {
	if depth <= 0 || depth >= len(c.blocks) {
		return
	}
	c.fork++
	var back []string
	for i := 0; i < depth; i++ {
		b := c.blocks[len(c.blocks)-1]
		c.blocks = c.blocks[:len(c.blocks)-1]
		for _, t := range b.Txs {
			delete(c.confAt, t)
		}
		back = append(b.Txs, back...)
	}
	c.w.Probe("chain:reorg")
	c.w.Probe("chain:reorg-hold")
	keep := append(back, c.mempool...)
	c.mempool = nil
	c.Mine(depth + 1)
	c.mempool = append(keep, c.mempool...)
}

// StartMiner mines one block every period (virtual) until the run ends.
func (c *SimChain) StartMiner(period time.Duration) {
	if period <= 0 {
		return
	}
	var tick func()
	tick = func() {
		if !c.stalled {
			c.Mine(1)
		}
		c.w.Sim.After(period, "chain", c.Name+" mine", tick)
	}
	c.w.Sim.After(period, "chain", c.Name+" mine", tick)
}

func (c *SimChain) SetStalled(b bool) { c.stalled = b }

// RegisterSwap records ground truth about an opening output.
func (c *SimChain) RegisterSwap(so *SwapOutput) {
	so.Chain = c.Name
	c.Swaps[fmt.Sprintf("%s:%d", so.TxID, so.Vout)] = so
}

// SwapByTx finds registered swap outputs of a transaction.
func (c *SimChain) SwapByTx(txid string) []*SwapOutput {
	var out []*SwapOutput
	for _, so := range c.Swaps {
		if so.TxID == txid {
			out = append(out, so)
		}
	}
	return out
}

// Broadcast parses and accepts a raw transaction from a node.
func (c *SimChain) Broadcast(by int, rawHex string, kind string) (string, error) {
	var tx *ChainTx
	var err error
	if c.Name == "btc" {
		tx, err = parseBtcTx(rawHex)
	} else {
		tx, err = parseLiquidTx(rawHex)
	}
	if err != nil {
		c.w.Observe(&Obs{Node: by, Kind: "tx.reject", Tx: &TxObs{Chain: c.Name, Hex: rawHex, Kind: kind, Err: "decode: " + err.Error()}})
		return "", fmt.Errorf("TX decode failed: %v", err)
	}
	tx.By = by
	tx.Kind = kind
	if err := c.accept(tx); err != nil {
		c.w.Observe(&Obs{Node: by, Kind: "tx.reject", Tx: &TxObs{Chain: c.Name, TxID: tx.ID, Hex: rawHex, Kind: kind, Err: err.Error()}})
		return "", err
	}
	to := &TxObs{Chain: c.Name, TxID: tx.ID, Hex: rawHex, Kind: kind}
	for _, in := range tx.Ins {
		if so := c.Swaps[in]; so != nil {
			to.SwapOutpoint = in
			to.Path = so.SpendPath
			to.Kind = "spend"
		}
	}
	c.w.Observe(&Obs{Node: by, Inc: c.w.Sim.Incarnation(by), Kind: "tx.broadcast", Tx: to})
	return tx.ID, nil
}

// SpendPlain makes the wallet of node `by` spend a non-swap output (e.g. its
// change), so that gettxout for it answers "spent" from then on.
func (c *SimChain) SpendPlain(by int, txid string, vout uint32) {
	var rawHex string
	if c.Name == "btc" {
		rawHex = plainBtcSpend(txid, vout)
	} else {
		rawHex = plainLiquidSpend(txid, vout)
	}
	if rawHex == "" {
		return
	}
	if _, err := c.Broadcast(by, rawHex, "wallet-spend"); err == nil {
		c.w.Probe("wallet:change-spent")
	}
}

// Hold keeps a transaction in the mempool (it is never mined).
func (c *SimChain) Hold(txid string) {
	if c.held == nil {
		c.held = map[string]bool{}
	}
	c.held[txid] = true
}
