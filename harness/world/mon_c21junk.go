package world

import (
	"bytes"
	"fmt"
)

// monC21junk: received messages that are not peerswap types, are malformed or
// exceed 100 KiB are ignored without changing any swap.
type monC21junk struct {
	base
	pending  map[int]*c21junk
	inflight map[string]*c21junk
}

type c21junk struct {
	variant string
	before  map[string][]byte
	typ     int
	size    int
}

func (m *monC21junk) Name() string { return "C21-junk" }

func (m *monC21junk) OnObs(w *World, o *Obs) {
	switch o.Kind {
	case "inject":
		if o.Msg == nil || !o.Msg.Junk {
			return
		}
		if m.pending == nil {
			m.pending = map[int]*c21junk{}
			m.inflight = map[string]*c21junk{}
		}
		// the delivery that follows carries idx -1000-injN; remember by payload identity instead
		m.pending[len(m.pending)] = &c21junk{variant: o.Str, typ: o.Msg.Type, size: len(o.Msg.Payload)}
	case "handling":
		// match by delivery order: injected junk deliveries have negative indices
		if o.Num > -1000 {
			return
		}
		for k, j := range m.pending {
			j.before = w.Nodes[o.Node].AllRaw()
			m.inflight[o.Task] = j
			delete(m.pending, k)
			break
		}
	case "handled":
		delete(m.inflight, o.Task)
	case "store.write":
		j := m.inflight[o.Task]
		if j == nil || o.Store.Raw == nil {
			return
		}
		if bytes.Equal(j.before[o.Store.SwapID], o.Store.Raw) {
			return
		}
		what := "changed"
		if j.before[o.Store.SwapID] == nil {
			what = "created"
		}
		w.Violate("C21", fmt.Sprintf("junk-%s-a-record:%s", what, j.variant), "node %d: a message that must be ignored (%s, type %d, %d bytes) %s the record of swap %.8s", o.Node, j.variant, j.typ, j.size, what, o.Store.SwapID)
	case "send":
		j := m.inflight[o.Task]
		if j == nil {
			return
		}
		w.Violate("C21", fmt.Sprintf("junk-answered:%s:%s", j.variant, MsgName(o.Msg.Type)), "node %d answered a message that must be ignored (%s, type %d, %d bytes) with %s", o.Node, j.variant, j.typ, j.size, MsgName(o.Msg.Type))
	}
}
