package world

func extraMonitors(prop string, tr *Tracker) []Monitor {
	switch prop {
	case "C08":
		return []Monitor{&monC08{base: base{tr}, seen: map[string]bool{}}}
	case "C03":
		return []Monitor{&monC03{base: base{tr}}}
	}
	return nil
}
