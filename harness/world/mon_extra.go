package world

func extraMonitors(prop string, tr *Tracker) []Monitor {
	switch prop {
	case "C08":
		return []Monitor{&monC08{base: base{tr}, seen: map[string]bool{}}}
	case "C03":
		return []Monitor{&monC03{base: base{tr}}}
	case "C01":
		return []Monitor{&monC01{base: base{tr}}}
	case "C02":
		return []Monitor{&monC02{base: base{tr}}}
	case "C04":
		return []Monitor{&monC04{base: base{tr}}}
	case "C05":
		return []Monitor{&monC05{base: base{tr}}}
	case "C11":
		return []Monitor{&monC11{base: base{tr}, reqs: map[string]*c11req{}}}
	case "C12":
		return []Monitor{&monC12{base: base{tr}}}
	}
	return nil
}
