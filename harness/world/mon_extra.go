package world

import "time"

func extraMonitors(prop string, tr *Tracker) []Monitor {
	switch prop {
	case "C08":
		return []Monitor{&monC08{base: base{tr}, seen: map[string]bool{}}}
	case "C03":
		return []Monitor{&monC03{base: base{tr}}}
	case "C01":
		return []Monitor{&monC01{base: base{tr}}}
	case "C02":
		return []Monitor{&monC02{base: base{tr}}}
	case "C04":
		return []Monitor{&monC04{base: base{tr}}}
	case "C05":
		return []Monitor{&monC05{base: base{tr}}}
	case "C11":
		return []Monitor{&monC11{base: base{tr}, reqs: map[string]*c11req{}}}
	case "C26":
		return []Monitor{&monC26{base: base{tr}, since: map[string]time.Duration{}}}
	case "C27":
		return []Monitor{&monC27{base: base{tr}}}
	case "C29":
		return []Monitor{&monC29{base: base{tr}, pre: map[int]*c29snap{}}}
	case "C10":
		return []Monitor{&c10probe{base: base{tr}}}
	case "C28":
		return []Monitor{&monC28{base: base{tr}, ref: map[int]*refPeer{}, reqSends: map[int][]time.Duration{}, connSince: map[int]time.Duration{}}}
	case "C21":
		return []Monitor{&monC21junk{base: base{tr}}}
	case "C20":
		return []Monitor{&monC20{base: base{tr}}}
	case "C12":
		return []Monitor{&monC12{base: base{tr}}}
	case "C24":
		return []Monitor{&monC24{base: base{tr}}}
	}
	return nil
}
