package world

func extraMonitors(prop string, tr *Tracker) []Monitor { return nil }
