package world

import (
	"bytes"
	"encoding/hex"
	"encoding/json"
	"fmt"
	"strings"
	"time"

	"github.com/btcsuite/btcd/wire"
	"github.com/vulpemventures/go-elements/confidential"
	"github.com/vulpemventures/go-elements/elementsutil"
	"github.com/vulpemventures/go-elements/transaction"
)

// ---------------------------------------------------------------------------
// C08 — opening_tx_broadcasted describes the broadcast transaction exactly.

type monC08 struct {
	base
	seen map[string]bool
}

func (m *monC08) Name() string { return "C08" }

func (m *monC08) OnObs(w *World, o *Obs) {
	if o.Kind != "send" || o.Msg.Type != MsgOpeningTx || !isReal(w, o.Node) {
		return
	}
	key := fmt.Sprintf("%d/%s/%s", o.Node, o.Msg.SwapID, string(o.Msg.Payload))
	if m.seen[key] {
		return // retransmission of the same bytes
	}
	m.seen[key] = true
	var msg RecOpening
	if err := json.Unmarshal(o.Msg.Payload, &msg); err != nil {
		return
	}
	r := w.FreshRec(o.Node, o.Msg.SwapID)
	if r == nil {
		if si := m.tr.Get(o.Node, o.Msg.SwapID); si != nil {
			r = si.Rec
		}
	}
	if r == nil || r.Request() == nil {
		return
	}
	chain := r.Chain()
	c := w.BTC
	if chain == "lbtc" {
		c = w.LBTC
	}
	w.Probe("C08:opening-message-checked:" + chain)
	sos := c.SwapByTx(msg.TxID)
	var so *SwapOutput
	for _, x := range sos {
		if x.Owner == o.Node {
			so = x
		}
	}
	if so == nil {
		w.Violate("C08", "txid-not-broadcast:"+chain, "node %d announced opening tx %.12s for swap %.8s, but its wallet never broadcast a transaction with that id", o.Node, msg.TxID, o.Msg.SwapID)
		return
	}
	if so.Vout != 0 {
		w.Probe("C08:swap-output-not-first")
	}
	if msg.ScriptOut != so.Vout {
		w.Violate("C08", "wrong-script_out:"+chain, "node %d announced script_out=%d for opening tx %.12s of swap %.8s, the swap output is at index %d", o.Node, msg.ScriptOut, msg.TxID, o.Msg.SwapID, so.Vout)
	}
	// amounts
	req := r.Request()
	prem := int64(0)
	if a := r.Agreement(); a != nil {
		prem = a.Premium
	}
	wantOpen, wantClaim := req.Amount, req.Amount
	if r.IsSwapIn() {
		wantOpen = uint64(int64(req.Amount) + prem)
	} else {
		wantClaim = uint64(int64(req.Amount) + prem)
	}
	if so.Amount != wantOpen {
		w.Violate("C08", "opening-amount:"+chain, "node %d: opening output of swap %.8s carries %d sat, negotiated on-chain amount is %d", o.Node, o.Msg.SwapID, so.Amount, wantOpen)
	}
	b, err := DecodePayreqBody(msg.Payreq)
	if err != nil {
		w.Violate("C08", "payreq-undecodable", "node %d announced an undecodable invoice for swap %.8s", o.Node, o.Msg.SwapID)
		return
	}
	inv := w.LN.Invoices[b.H]
	if inv == nil || inv.Payee != o.Node {
		w.Violate("C08", "invoice-unknown", "node %d announced an invoice that its Lightning node does not hold", o.Node)
		return
	}
	if inv.AmountMsat != wantClaim*1000 {
		w.Violate("C08", "invoice-amount:"+chain, "node %d: claim invoice of swap %.8s is for %d msat, claim amount is %d sat", o.Node, o.Msg.SwapID, inv.AmountMsat, wantClaim)
	}
	if b.H != so.PayHash {
		w.Violate("C08", "invoice-hash-not-locked:"+chain, "node %d: claim invoice hash %.8s is not the hash locked in the opening output (%.8s)", o.Node, b.H, so.PayHash)
	}
	wantExp, wantCltv := 24*time.Hour, int64(503)
	if chain == "lbtc" {
		wantExp, wantCltv = time.Hour, 29
	}
	// invoice was created just before this message; allow the time since creation
	var created time.Duration = -1
	for _, x := range w.Obs {
		if x.Kind == "invoice.new" && x.Str == b.H {
			created = x.T
		}
	}
	if created >= 0 && inv.ExpiresAt-created != wantExp {
		w.Violate("C08", "invoice-expiry:"+chain, "node %d: claim invoice expiry is %v, want %v", o.Node, inv.ExpiresAt-created, wantExp)
	}
	if inv.FinalCLTV != wantCltv {
		w.Violate("C08", "invoice-cltv:"+chain, "node %d: claim invoice final CLTV is %d, want %d", o.Node, inv.FinalCLTV, wantCltv)
	}
	if chain == "lbtc" {
		bk, err := hex.DecodeString(msg.BlindingKey)
		if err != nil || len(bk) != 32 {
			w.Violate("C08", "blinding-key-format", "node %d: blinding_key %q is not 32 bytes of hex", o.Node, msg.BlindingKey)
			return
		}
		tx := c.Txs[so.TxID]
		t, err := transaction.NewTxFromHex(tx.Hex)
		if err == nil && int(so.Vout) < len(t.Outputs) {
			ub, err := confidential.UnblindOutputWithKey(t.Outputs[so.Vout], bk)
			if err != nil {
				w.Violate("C08", "blinding-key-does-not-unblind", "node %d: announced blinding key does not unblind output %d of %.12s: %v", o.Node, so.Vout, so.TxID, err)
			} else if ub.Value != so.Amount {
				w.Violate("C08", "unblinded-amount", "node %d: output unblinds to %d, expected %d", o.Node, ub.Value, so.Amount)
			}
		}
	} else if msg.BlindingKey != "" {
		w.Violate("C08", "blinding-key-on-bitcoin", "node %d sent a blinding key for a bitcoin swap", o.Node)
	}
}

// ---------------------------------------------------------------------------
// C03 — claim / coop / CSV-refund transactions are valid and pay the node.

type monC03 struct{ base }

func (m *monC03) Name() string { return "C03" }

func (m *monC03) OnObs(w *World, o *Obs) {
	if o.Tx == nil || !isReal(w, o.Node) {
		return
	}
	switch o.Kind {
	case "tx.reject":
		if isSwapSpendKind(o.Tx.Kind) {
			switch {
			case strings.Contains(o.Tx.Err, "mandatory-script-verify-flag-failed"), strings.Contains(o.Tx.Err, "decode"):
				w.Violate("C03", "invalid-spend:"+o.Tx.Chain+":"+firstWords(o.Tx.Err, 6), "node %d built a %s spend that consensus rejects: %s", o.Node, o.Tx.Chain, o.Tx.Err)
			case strings.Contains(o.Tx.Err, "non-BIP68-final"):
				w.Probe("C03:premature-csv-attempt")
			}
		}
	case "tx.broadcast":
		isSpend := isSwapSpendKind(o.Tx.Kind)
		if !isSpend {
			return
		}
		c := w.BTC
		if o.Tx.Chain == "lbtc" {
			c = w.LBTC
		}
		n := w.Nodes[o.Node]
		if o.Tx.SwapOutpoint == "" {
			w.Violate("C03", "spend-of-non-swap-output:"+o.Tx.Chain, "node %d broadcast a swap spend %.12s that does not spend any swap output", o.Node, o.Tx.TxID)
			return
		}
		so := c.Swaps[o.Tx.SwapOutpoint]
		w.Probe("C03:spend-checked:" + o.Tx.Chain + ":" + o.Tx.Path)
		if o.Tx.Chain == "btc" {
			m.checkBtc(w, n, so, o)
		} else {
			m.checkLiquid(w, n, so, o)
		}
		if o.Tx.Path == "csv" {
			// what-if: one block earlier the refund must not be valid
			seq, ver := spendSeq(o.Tx.Chain, o.Tx.Hex)
			if bip68ok(ver, seq, so.CSV-1) == nil {
				w.Violate("C03", "csv-refund-valid-too-early:"+o.Tx.Chain, "node %d: CSV refund %.12s (sequence %d) would already be valid at depth %d, CSV is %d", o.Node, o.Tx.TxID, seq, so.CSV-1, so.CSV)
			}
			if bip68ok(ver, seq, so.CSV) != nil {
				w.Violate("C03", "csv-refund-not-valid-at-csv:"+o.Tx.Chain, "node %d: CSV refund %.12s (sequence %d) is not valid at depth %d", o.Node, o.Tx.TxID, seq, so.CSV)
			}
		}
	}
}

func firstWords(s string, n int) string {
	f := strings.Fields(s)
	if len(f) > n {
		f = f[:n]
	}
	return strings.Join(f, "_")
}

func spendSeq(chain, rawHex string) (uint32, int32) {
	if chain == "btc" {
		raw, _ := hex.DecodeString(rawHex)
		t := wire.NewMsgTx(2)
		if t.Deserialize(bytes.NewReader(raw)) == nil && len(t.TxIn) > 0 {
			return t.TxIn[0].Sequence, t.Version
		}
		return 0, 2
	}
	t, err := transaction.NewTxFromHex(rawHex)
	if err != nil || len(t.Inputs) == 0 {
		return 0, 2
	}
	return t.Inputs[0].Sequence, int32(t.Version)
}

func (m *monC03) checkBtc(w *World, n *Node, so *SwapOutput, o *Obs) {
	raw, _ := hex.DecodeString(o.Tx.Hex)
	t := wire.NewMsgTx(2)
	if err := t.Deserialize(bytes.NewReader(raw)); err != nil {
		return
	}
	if len(t.TxOut) != 1 {
		w.Violate("C03", "outputs-count:btc", "node %d: spend %.12s has %d outputs, want exactly one", n.ID, o.Tx.TxID, len(t.TxOut))
		return
	}
	if !n.BtcWallet.Scripts[hex.EncodeToString(t.TxOut[0].PkScript)] {
		w.Violate("C03", "pays-foreign-address:btc", "node %d: spend %.12s pays a script its wallet did not issue", n.ID, o.Tx.TxID)
	}
	fee := int64(so.Amount) - t.TxOut[0].Value
	vsize := int64(t.SerializeSizeStripped()) + int64(t.SerializeSize()-t.SerializeSizeStripped()+3)/4
	if fee < vsize { // 1 sat/vB relay floor
		w.Violate("C03", "fee-below-relay-floor:btc", "node %d: spend %.12s pays fee %d for %d vbytes", n.ID, o.Tx.TxID, fee, vsize)
	}
	// the rate the node was actually told (fault kinds make the estimator answer
	// with other rates than the scenario's; paying what the estimator says is
	// "only the fee")
	kw := w.Plan.Scn.BtcFeePerKw[n.ID]
	if n.ext.maxFeeKw > kw {
		kw = n.ext.maxFeeKw
	}
	rate := kw * 4 / 1000 // sat/vB
	if rate < 1 {
		rate = 1
	}
	if fee > 10*rate*vsize+1000 && fee > 20000 {
		w.Violate("C03", "fee-excessive:btc", "node %d: spend %.12s pays fee %d for %d vbytes (estimator %d sat/vB)", n.ID, o.Tx.TxID, fee, vsize, rate)
	}
}

func (m *monC03) checkLiquid(w *World, n *Node, so *SwapOutput, o *Obs) {
	t, err := transaction.NewTxFromHex(o.Tx.Hex)
	if err != nil {
		return
	}
	var pay []*transaction.TxOutput
	var fee uint64
	for _, out := range t.Outputs {
		if len(out.Script) == 0 {
			v, err := elementsutil.ValueFromBytes(out.Value)
			if err == nil {
				fee += v
			}
			continue
		}
		pay = append(pay, out)
	}
	if len(pay) != 1 {
		w.Violate("C03", "outputs-count:lbtc", "node %d: spend %.12s has %d non-fee outputs, want exactly one", n.ID, o.Tx.TxID, len(pay))
		return
	}
	sh := hex.EncodeToString(pay[0].Script)
	if !n.LiquidWallet.Scripts[sh] {
		w.Violate("C03", "pays-foreign-address:lbtc", "node %d: spend %.12s pays a script its wallet did not issue", n.ID, o.Tx.TxID)
		return
	}
	ub, err := confidential.UnblindOutputWithKey(pay[0], n.LiquidWallet.BlindKey[sh])
	if err != nil {
		w.Violate("C03", "output-not-unblindable:lbtc", "node %d: its wallet cannot unblind the output of spend %.12s: %v", n.ID, o.Tx.TxID, err)
		return
	}
	asset := n.LiquidOn.GetAsset()
	ab, _ := hex.DecodeString(asset)
	if len(ab) == 33 && !bytes.Equal(ub.Asset, ab[1:]) {
		w.Violate("C03", "wrong-asset:lbtc", "node %d: spend %.12s pays asset %x, policy asset is %x", n.ID, o.Tx.TxID, ub.Asset, ab[1:])
	}
	if ub.Value+fee != so.Amount {
		w.Violate("C03", "value-not-conserved:lbtc", "node %d: spend %.12s: output %d + fee %d != swap amount %d", n.ID, o.Tx.TxID, ub.Value, fee, so.Amount)
	}
	if fee < 20 {
		w.Violate("C03", "fee-below-relay-floor:lbtc", "node %d: spend %.12s pays fee %d", n.ID, o.Tx.TxID, fee)
	}
	if fee > 50000 {
		w.Violate("C03", "fee-excessive:lbtc", "node %d: spend %.12s pays fee %d", n.ID, o.Tx.TxID, fee)
	}
}

// isSwapSpendKind: transactions a node builds to spend a swap output. At tiers 2 and 3 the
// adapters hand exactly these (and nothing else) to PublishTransaction without a funding /
// to bitcoind's sendrawtransaction, whether or not they turn out to spend a swap output.
func isSwapSpendKind(kind string) bool {
	return strings.HasPrefix(kind, "claim-") || kind == "spend" || kind == "cln-sendraw" || kind == "lnd-publish"
}
